"""check driver: decides one property.

  python3-vt -m vcheck.main <PID> [--tier quick|thorough] [--replay FILE]

 1. tier V  : all sidecar contracts serving the property are re-generated from /repo's current source and
              discharged (pyvc);  a refuted obligation is replayed natively where a replayer exists.
 2. tier C/B: the property's certificate / bounded module (vcheck/props/<pid>.py), if any.
 3. known findings are filtered, evidence is written, exit code 0 / 1 (+ VIOLATION lines).
Exit 3 = the machinery itself failed (never a verdict about the code).
"""
import argparse, importlib, json, os, sys, time, hashlib, subprocess, traceback

HERE = os.path.dirname(os.path.dirname(os.path.abspath(__file__)))
sys.path.insert(0, HERE)
from pyvc import verify as V
from pyvc.core import ASSUMPTIONS
from vcheck import common

LOCK = os.path.join(HERE, 'obligations.lock.json')


def tier_v(pid, replays_dir):
    V.load_contracts()
    keys = [k for k, e in V.REGISTRY.items() if pid in e['props']]
    recs = V.verify_many(keys)
    lock = json.load(open(LOCK)) if os.path.exists(LOCK) else {}
    viol, notes = [], []
    n_obl = n_dis = 0
    for r in recs:
        locked = lock.get(r['name'])
        names = [o['name'] for o in r['obligations']]
        if r['status'] == 'engine-error':
            # the engine (or a contract lambda) failed on this source: never a verdict about the code. Reported; the run exits 3 unless a
            # real violation is found elsewhere.
            notes.append(f"ENGINE-ERROR {r['name']}: {str(r.get('reason'))[-400:]}")
            continue
        if r['status'] in ('out-of-reach', 'vacuous'):
            notes.append(f"OUT-OF-REACH {r['name']}: {r['status']}: {r.get('reason')} (not counted as verified; bounded twin decides)")
            continue
        if locked is not None and sorted(locked) != sorted(names):
            notes.append(f"LOCK-DRIFT {r['name']}: obligations now {len(names)}, locked {len(locked)} (source shape changed)")
        for o in r['obligations']:
            n_obl += 1
            if o['verdict'] == 'discharged':
                n_dis += 1; continue
            if o['verdict'] == 'unknown' and (locked is None or o['name'] not in locked):
                notes.append(f"UNDECIDED {r['name']}::{o['name']} (not in lock; not counted)")
                continue
            # refuted, or unknown on an obligation that is discharged on the unchanged tree
            key = f"{r['name']}::{o['name']}"
            v = dict(kind='obligation', key=key, contract=r['name'], obligation=o['name'], line=o.get('line'),
                     verdict=o['verdict'], model=o.get('model'), solver_output=o.get('solver_output'),
                     what=f"obligation {o['name']} of {r['qual']} ({r['file']}:{o.get('line')}) {o['verdict']}")
            native = None
            if r.get('replay'):
                # the real function on the counter-model's inputs; replayers that search natively around the failed obligation need no model
                native = common.native_replay(r['replay'], o.get('model') or {})
            v['native'] = native
            v['confirmed'] = bool(native and native.get('violates'))
            viol.append(v)
    return recs, viol, notes, n_obl, n_dis


def main(argv=None):
    ap = argparse.ArgumentParser()
    ap.add_argument('pid'); ap.add_argument('--tier', default=os.environ.get('VERIF_TIER', 'quick'))
    ap.add_argument('--replay'); ap.add_argument('--update-lock', action='store_true')
    a = ap.parse_args(argv)
    pid = a.pid
    seed = int(os.environ.get('VERIF_SEED', '0'))
    t0 = time.time()
    if a.replay:
        return common.replay_file(a.replay)
    replays_dir = os.path.join(HERE, 'replays', pid)
    os.makedirs(replays_dir, exist_ok=True)
    os.makedirs(os.path.join(HERE, 'evidence'), exist_ok=True)
    try:
        recs, viol, notes, n_obl, n_dis = tier_v(pid, replays_dir)
        if a.update_lock:
            lock = json.load(open(LOCK)) if os.path.exists(LOCK) else {}
            for r in recs:
                if r['status'] == 'ok':
                    lock[r['name']] = [o['name'] for o in r['obligations'] if o['verdict'] == 'discharged']
            json.dump(lock, open(LOCK, 'w'), indent=1, sort_keys=True)
        bounded = None
        try:
            mod = importlib.import_module(f'vcheck.props.{pid.lower()}')
        except ModuleNotFoundError as ex:
            if f'vcheck.props.{pid.lower()}' not in str(ex): raise
            mod = None
        if mod is not None:
            bounded = mod.run(a.tier, seed)
            viol += bounded.get('violations', [])
            notes += bounded.get('notes', [])
    except common.MachineryError as ex:
        print(f'MACHINERY-ERROR property={pid}: {ex}', file=sys.stderr)
        return 3
    except Exception:
        traceback.print_exc()
        return 3

    known = common.load_known()
    real, n_known = [], 0
    for v in viol:
        kf = common.match_known(known, pid, v)
        if kf:
            print(f"KNOWN-FINDING: property={pid} {kf['what']}")
            n_known += 1
        else:
            real.append(v)
    for n in notes: print('NOTE', n)
    for i, v in enumerate(real):
        h = hashlib.sha1(v['key'].encode()).hexdigest()[:10]
        path = os.path.join(replays_dir, f'{h}.json')
        json.dump(dict(property=pid, **v), open(path, 'w'), indent=1, default=str)
        tail = '' if v.get('confirmed') else ' no-failing-input-found'
        print(f"VIOLATION property={pid} replay={path} :: {v['what']}{tail}")
    ev = common.evidence(pid, a.tier, seed, recs, n_obl, n_dis, bounded, len(real), n_known, notes, time.time() - t0)
    json.dump(ev, open(os.path.join(HERE, 'evidence', f'{pid}.json'), 'w'), indent=1, default=str)
    print(f"{pid}: tier-V {n_dis}/{n_obl} obligations discharged over {len(recs)} functions; "
          f"bounded: {bounded['summary'] if bounded else 'none'}; violations={len(real)} known={n_known} "
          f"wall={time.time() - t0:.1f}s")
    if real: return 1
    if any(n.startswith('ENGINE-ERROR') for n in notes): return 3
    return 0


if __name__ == '__main__':
    sys.exit(main())
