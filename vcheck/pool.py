"""Runs check items in parallel, one forked process per item, each with a wall-clock budget (SIGALRM inside, hard kill outside) and an
address-space limit, so that a diverging oracle or CAS call turns into a counted 'skipped' item instead of hanging or exhausting memory."""
import multiprocessing, os, pickle, resource, signal, time, traceback

MEM_LIMIT = int(os.environ.get('VERIF_ITEM_MEM_GB', '6')) * 1024 ** 3


class ItemTimeout(Exception): pass


def _alarm(sig, frm): raise ItemTimeout()


def _child(fn, item, budget, conn):
    try:
        resource.setrlimit(resource.RLIMIT_AS, (MEM_LIMIT, MEM_LIMIT))
    except Exception:
        pass
    signal.signal(signal.SIGALRM, _alarm)
    signal.alarm(int(budget))
    t = time.time()
    try:
        r = fn(item)
    except ItemTimeout:
        r = dict(status='skipped', why='judge budget exceeded')
    except MemoryError:
        r = dict(status='skipped', why='judge memory limit exceeded')
    except Exception as ex:
        r = dict(status='machinery-error', why=''.join(traceback.format_exception(ex))[-2500:])
    finally:
        signal.alarm(0)
    r['wall'] = round(time.time() - t, 2)
    try:
        conn.send(r)
    except Exception as ex:
        conn.send(dict(status='machinery-error', why=f'result not picklable: {ex}', wall=r.get('wall', 0)))
    conn.close()


def run_items(fn, items, budget=240, procs=None):
    procs = procs or min(16, os.cpu_count() or 4)
    ctx = multiprocessing.get_context('fork')
    results = [None] * len(items)
    pending = list(range(len(items)))
    running = {}          # idx -> (process, conn, start)
    while pending or running:
        while pending and len(running) < procs:
            i = pending.pop(0)
            pc, cc = ctx.Pipe(duplex=False)
            p = ctx.Process(target=_child, args=(fn, items[i], budget, cc), daemon=True)
            p.start(); cc.close()
            running[i] = (p, pc, time.time())
        done = []
        for i, (p, pc, t0) in running.items():
            if pc.poll(0):
                try: results[i] = pc.recv()
                except EOFError: results[i] = dict(status='skipped', why='worker died (killed or out of memory)', wall=round(time.time() - t0, 2))
                done.append(i)
            elif not p.is_alive():
                results[i] = dict(status='skipped', why='worker died (killed or out of memory)', wall=round(time.time() - t0, 2)); done.append(i)
            elif time.time() - t0 > budget + 30:
                p.kill(); results[i] = dict(status='skipped', why='judge budget exceeded (hard kill)', wall=round(time.time() - t0, 2)); done.append(i)
        for i in done:
            p, pc, _ = running.pop(i)
            p.join(timeout=5)
            if p.is_alive(): p.kill()
            pc.close()
        if not done: time.sleep(0.05)
    return results
