import multiprocessing, os, signal, time, traceback


class ItemTimeout(Exception): pass


def _alarm(sig, frm): raise ItemTimeout()


def _run(args):
    fn, item, budget = args
    signal.signal(signal.SIGALRM, _alarm)
    signal.alarm(int(budget))
    t = time.time()
    try:
        r = fn(item)
    except ItemTimeout:
        r = dict(status='skipped', why='judge budget exceeded')
    except Exception as ex:
        r = dict(status='machinery-error', why=''.join(traceback.format_exception(ex))[-2500:])
    finally:
        signal.alarm(0)
    r['wall'] = round(time.time() - t, 2)
    return r


def run_items(fn, items, budget=240, procs=None):
    procs = procs or min(16, os.cpu_count() or 4)
    if not items: return []
    with multiprocessing.get_context('fork').Pool(min(procs, len(items))) as pool:
        return pool.map(_run, [(fn, it, budget) for it in items], chunksize=1)
