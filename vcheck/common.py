import json, os, subprocess, sys, time, hashlib

HERE = os.path.dirname(os.path.dirname(os.path.abspath(__file__)))
REPO = os.environ.get('POLAR_REPO', '/repo')
VENV_PY = '/venv/bin/python'
KNOWN = os.path.join(HERE, 'known_findings.json')


class MachineryError(Exception):
    pass


def _die_with_parent():
    """child processes (probes, the real CLI) are killed when the checking process dies: no orphaned analyses keep cores busy"""
    try:
        import ctypes, signal
        ctypes.CDLL('libc.so.6').prctl(1, signal.SIGKILL)          # PR_SET_PDEATHSIG
    except Exception:
        pass


def run_probe(script, payload, timeout=120, env=None):
    """Run a probe script (imports Polar) under /venv/bin/python with a hard wall-clock budget.
    returns (status, obj) with status in ok / timeout / crash"""
    e = dict(os.environ); e['POLAR_REPO'] = REPO; e['PYTHONPATH'] = REPO
    e.setdefault('PYTHONHASHSEED', '0')
    if env: e.update(env)
    try:
        p = subprocess.run([VENV_PY, os.path.join(HERE, 'probe', script)], input=json.dumps(payload), capture_output=True, preexec_fn=_die_with_parent,
                           text=True, timeout=timeout, env=e, cwd=REPO)
    except subprocess.TimeoutExpired:
        return 'timeout', None
    if p.returncode != 0:
        return 'crash', p.stderr[-3000:]
    try:
        out = p.stdout
        i = out.rfind('\n@@JSON@@')
        if i >= 0: out = out[i + 9:]
        return 'ok', json.loads(out)
    except Exception as ex:
        return 'crash', f'bad probe output: {ex}: {p.stdout[-500:]} {p.stderr[-1500:]}'


def native_replay(replay, model):
    st, out = run_probe('replay.py', dict(replay=replay, model=model), timeout=120)
    if st != 'ok':
        return dict(status=st, violates=False, detail=out)
    return out


def replay_file(path):
    d = json.load(open(path))
    pid = d.get('property')
    if d.get('kind') == 'obligation':
        import importlib
        from pyvc import verify as V
        V.load_contracts()
        r = V.verify_one(d['contract'])
        for o in r['obligations']:
            if o['name'] == d['obligation']:
                print(json.dumps(o, indent=1, default=str))
                if o['verdict'] != 'discharged':
                    print(f"VIOLATION property={pid} replay={path}")
                    return 1
                return 0
        print('obligation no longer generated:', r.get('status'), r.get('reason'))
        return 0
    if d.get('kind') == 'bounded':
        import importlib
        mod = importlib.import_module(f"vcheck.props.{pid.lower()}")
        ok = mod.replay(d)
        if not ok:
            print(f"VIOLATION property={pid} replay={path}")
            return 1
        return 0
    print('unknown replay kind'); return 3


def load_known():
    if not os.path.exists(KNOWN): return []
    return json.load(open(KNOWN))


def match_known(known, pid, v):
    for k in known:
        if k.get('status') != 'known': continue          # 'fixed' entries suppress nothing
        if k['property'] == pid and k['key'] == v['key']:
            return k
    return None


STANDING = [
    "z3 5.1 / cvc5 1.0 soundness; CPython ast module",
    "termination of Polar's own loops is not verified",
    "spec functions and the judge's reference semantics are written from the property statements (trusted, cross-checked)",
]


def evidence(pid, tier, seed, recs, n_obl, n_dis, bounded, n_viol, n_known, notes, wall):
    from pyvc.core import ASSUMPTIONS
    funcs = []
    trusted = set()
    lemmas = set()
    backends = {}
    solver_s = 0.0
    samples = []
    for r in recs:
        funcs.append(dict(function=f"{r['file']}::{r['qual']}", status=r['status'], lines=r.get('lines'),
                          obligations=len(r['obligations']),
                          discharged=sum(o['verdict'] == 'discharged' for o in r['obligations']),
                          dead_paths=r.get('dead_paths'), reason=r.get('reason'), solver_s=r.get('solver_s')))
        trusted |= set(r.get('trusted', [])); lemmas |= set(r.get('lemmas', []))
        solver_s += r.get('solver_s', 0)
        for o in r['obligations']:
            backends[o['backend']] = backends.get(o['backend'], 0) + 1
        if r['obligations'] and len(samples) < 4:
            o = r['obligations'][-1]
            samples.append(dict(obligation=f"{r['name']}::{o['name']}", kind=o['kind'], line=o.get('line'), verdict=o['verdict'],
                                backend=o['backend'], seconds=o['s']))
    nontriv = set()
    for r in recs:
        for o in r['obligations']:
            if o['verdict'] == 'discharged' and o['kind'] in ('ensures', 'raises', 'loop-init', 'loop-preserve', 'assert'):
                nontriv.add(f"{r['name']}::{o['name']}")
    cov = dict(
        explanation=("Hybrid. Deductive part: verification conditions generated on this run from the current source text of the "
                     "listed /repo functions (pyvc, AST -> z3, sidecar contracts), every obligation discharged for all inputs and "
                     "all iterations. " + (bounded['explanation'] if bounded else
                     "No bounded part for this property in this run.")),
        functions_under_contract=funcs,
        obligations=n_obl, discharged=n_dis,
        checker_cmd=f"./check {pid} --tier {tier}",
        backends=backends, solver_s=round(solver_s, 3),
        trusted_base=sorted(trusted) + [f'lemma (assumed): {l}' for l in sorted(lemmas)] + STANDING,
        extraction_drops=["type hints, docstrings, decorators (lru_cache => purity assumption)",
                          "CAS normalisers (sympify/expand/simplify/copy) treated as identity on values",
                          "calls without a contract are out of reach (function then not counted)"],
        out_of_reach=[f for f in funcs if f['status'] != 'ok'],
        notes=notes,
        known_findings_matched=n_known,
    )
    ev_n = len(nontriv); ev_eval = n_obl
    if bounded:
        cov['bounded'] = {k: v for k, v in bounded.items() if k not in ('violations', 'notes', 'samples', 'explanation')}
        ev_eval += bounded.get('evaluations', 0)
        ev_n += bounded.get('distinct_nontrivial', 0)
        samples += bounded.get('samples', [])[:6]
        cov['rule'] = ("deductive: one case per generated obligation, non-trivial = ensures/raises/loop obligations (safety side "
                       "conditions excluded); bounded: " + bounded.get('rule', ''))
    else:
        cov['rule'] = ("one case per generated obligation; non-trivial = ensures/raises/loop-init/loop-preserve obligations "
                       "(index and division side conditions excluded), distinct by contract::name")
    cov['evaluations'] = ev_eval
    cov['distinct_nontrivial'] = ev_n
    cov['samples'] = samples or [dict(note='no obligations generated')]
    try:
        level = json.load(open(os.path.join(HERE, 'tools', 'claims.json'))).get(pid, {}).get('category', 'other')
    except Exception:
        level = 'other'
    return dict(property_id=pid, tier=tier if tier in ('quick', 'thorough') else 'quick', seed=seed, level=level,
                coverage=cov, assumptions=ASSUMPTIONS + STANDING + (bounded.get('assumptions', []) if bounded else []),
                wall_s=round(wall, 2), violations=n_viol)


import re as _re, tempfile as _tempfile
_ANSI = _re.compile(r'\x1b\[[0-9;]*m')


def run_cli(src, args, timeout=120, env=None, suffix='.prob'):
    """Run the REAL command line (polar.py) on a source text; returns (status, stdout, stderr)."""
    e = dict(os.environ); e['PYTHONPATH'] = REPO; e.setdefault('PYTHONHASHSEED', '0')
    e['MPLBACKEND'] = 'Agg'
    if env: e.update(env)
    with _tempfile.NamedTemporaryFile('w', suffix=suffix, delete=False, dir=_tempfile.gettempdir()) as f:
        f.write(src); path = f.name
    try:
        p = subprocess.run([VENV_PY, os.path.join(REPO, 'polar.py'), path] + list(args), capture_output=True, preexec_fn=_die_with_parent, text=True, timeout=timeout, env=e, cwd=REPO)
        return ('ok' if p.returncode == 0 else 'error'), _ANSI.sub('', p.stdout), _ANSI.sub('', p.stderr)
    except subprocess.TimeoutExpired:
        return 'timeout', '', ''
    finally:
        os.unlink(path)


def parse_printed(text):
    """'v0; v1; general' as printed by prettify_piecewise -> (list of special values, general expr) as sympy objects"""
    import sympy as sp
    parts = [p.strip() for p in text.split(';')]
    n = sp.Symbol('n', integer=True)

    def px(s):
        names = set(_re.findall(r'[A-Za-z_][A-Za-z_0-9]*', s)) - {'sqrt', 'I', 'exp', 'sin', 'cos', 'pi', 'E', 'oo', 'zoo', 'nan', 'erf', 'erfinv', 'log', 'Abs', 'Piecewise', 'binomial', 'factorial', 'gamma', 're', 'im'}
        loc = {nm: sp.Symbol(nm) for nm in names}
        loc['n'] = n
        return sp.sympify(s, locals=loc)
    vals = [px(p) for p in parts]
    return vals[:-1], vals[-1]


def printed_at(specials, general, k):
    import sympy as sp
    if k < len(specials): return specials[k]
    return general.xreplace({sp.Symbol('n', integer=True): sp.Integer(k)})


def run_cli_files(srcs, args, timeout=180, env=None):
    """Run the REAL command line on SEVERAL source texts in one process (polar.py a.prob b.prob ...), as polar.main loops over benchmarks."""
    e = dict(os.environ); e['PYTHONPATH'] = REPO; e.setdefault('PYTHONHASHSEED', '0'); e['MPLBACKEND'] = 'Agg'
    if env: e.update(env)
    paths = []
    try:
        for src in srcs:
            with _tempfile.NamedTemporaryFile('w', suffix='.prob', delete=False) as f:
                f.write(src); paths.append(f.name)
        p = subprocess.run([VENV_PY, os.path.join(REPO, 'polar.py')] + paths + list(args), capture_output=True, preexec_fn=_die_with_parent, text=True, timeout=timeout, env=e, cwd=REPO)
        return ('ok' if p.returncode == 0 else 'error'), _ANSI.sub('', p.stdout), _ANSI.sub('', p.stderr)
    except subprocess.TimeoutExpired:
        return 'timeout', '', ''
    finally:
        for q in paths: os.unlink(q)
