"""C12 bounded part.
 (a) Every resolution path of the REAL Simulator (random sources scripted, depth-first enumeration) on discrete programs: the law of the
     simulated state after each iteration n <= N equals the law from the independent semantics (probabilities within 1e-9, values exact
     as floats), including stuttering once the guard is false.
 (b) Sampler contracts: the arguments every Distribution.sample passes to its scipy sampler denote (under scipy's documented
     parametrisation -- assumed contracts) a distribution with the mean, variance and support that the analysis uses."""
import hashlib
import sympy as sp
from vcheck import common, judge, pool
from vcheck.props.c01 import summarise
from spec import lang, gen
from vcheck.props.c08 import true_moment, true_support

SIM_PROGRAMS = [
("entry_false", "x = 0\nc = 0\nwhile x > 0:\n    c = c + 1\n    x = x - 1\nend", 4),
("geo_entry", "x = 1 {1/2} 0\nc = 0\nwhile x == 1:\n    c = c + 1\n    x = 1 {1/2} 0\nend", 4),
("elif_overlap", "r = 0\nw = 2\nl = 1\nwhile true:\n    r = Categorical(1/2, 1/4, 1/4)\n    if r == 0:\n        w = w + 1\n    elif r <= 1:\n        l = l + w\n    else:\n        l = l + 1\n    end\nend", 3),
("simult", "x, y = 1, 2\nwhile true:\n    x, y = y, x + 1 {1/2} x\nend", 4),
("three_choice", "x = 0\nwhile true:\n    x = x + 1 {1/2} x - 2 {1/3} x\nend", 3),
("guard_refalse", "g = 1\nk = 0\nwhile g == 1:\n    g = Bernoulli(1/2)\n    k = k + 1\nend", 4),
("du_cmp", "d = 0\ns = 0\nwhile true:\n    d = DiscreteUniform(1, 3)\n    if d >= 2:\n        s = s + d\n    end\n    if d == 2:\n        s = s - 1\n    end\nend", 3),
("nested_else", "a = 0\nb = 0\nt = 0\nwhile true:\n    a = Bernoulli(1/2)\n    b = Bernoulli(1/4)\n    if a == 1:\n        if b == 1:\n            t = t + 5\n        else:\n            t = t + 1\n        end\n    else:\n        t = t - 1\n    end\nend", 3),
("choice_coinciding_values", "x = 1\ny = 0\nwhile true:\n    x = x + 1 {1/2} 2*x {1/4} 3\n    if x == 3:\n        y = y + 1 {1/2} y\n    end\nend", 3),      # branches of a choice that evaluate to the same number in a reachable state
("or_and", "p = 0\nq = 0\nz = 0\nwhile true:\n    p = Bernoulli(1/2)\n    q = Bernoulli(1/2)\n    if p == 1 || q == 1:\n        z = z + 1\n    end\n    if !(p == 1 && q == 1):\n        z = z + 10\n    end\nend", 2),
]
SAMPLERS = [('Normal', ['2', '9']), ('Normal', ['-1', '1/4']), ('Uniform', ['1', '4']), ('Uniform', ['-2', '-1']), ('Laplace', ['1', '3']), ('DistExp', ['4']), ('DistExp', ['1/2']),
            ('Gamma', ['3', '2']), ('Gamma', ['2', '1/2']), ('Beta', ['2', '3']), ('Beta', ['2', '5', '4']), ('TruncNormal', ['5', '4', '4', '6']), ('TruncNormal', ['0', '1', '-1', '2']),
            ('Bernoulli', ['1/3'])]


def items(tier, seed):
    its = [dict(name='sim_' + n, kind='sim', src=s, iterations=k + (0 if tier == 'quick' else 1), budget=200) for n, s, k in SIM_PROGRAMS]
    its.append(dict(name='samplers', kind='samplers', src='samplers', budget=100))
    if tier != 'quick':
        # generated discrete programs of family G (no continuous draw, no symbolic parameter): every resolution path, 2 iterations
        import re
        cont = re.compile(r'\b(Normal|Uniform|Laplace|Exponential|Gamma|Beta|TruncNormal)\(')
        k = 0
        for n, src, vs in gen.family(23000 + seed, 500, allow_params=False):
            if cont.search(src): continue
            its.append(dict(name='gen_' + n, kind='sim', src=src, iterations=2, budget=150)); k += 1
            if k >= 160: break
    return its


def implied(family, cap):
    """mean, variance, support implied by the captured scipy arguments (scipy parametrisation: assumed contract)"""
    a, k = cap.get('args', []), cap.get('kwargs', {})
    loc, scale = k.get('loc', 0.0), k.get('scale', 1.0)
    oo = float('inf')
    if family == 'Normal': return loc, scale ** 2, (-oo, oo), 1.0
    if family == 'Uniform': return loc + scale / 2, scale ** 2 / 12, (loc, loc + scale), 1.0
    if family == 'Laplace': return loc, 2 * scale ** 2, (-oo, oo), 1.0
    if family == 'DistExp': return loc + scale, scale ** 2, (loc, oo), 1.0
    if family == 'Gamma': return loc + a[0] * scale, a[0] * scale ** 2, (loc, oo), 1.0
    if family == 'Beta':
        al, be = a[0], a[1]; return al / (al + be), al * be / ((al + be) ** 2 * (al + be + 1)), (0.0, 1.0), None
    if family == 'TruncNormal': return None, None, (loc + a[0] * scale, loc + a[1] * scale), 1.0
    if family == 'Bernoulli': return a[0], a[0] * (1 - a[0]), (0.0, 1.0), 1.0
    return None


def check_item(it):
    viol, checked = [], 0
    if it['kind'] == 'samplers':
        st, out = common.run_probe('simulate.py', dict(samplers=[dict(family=f, params=p) for f, p in SAMPLERS]), timeout=it['budget'])
        if st != 'ok' or 'probe_error' in out: return dict(status='machinery-error', why=str(out))
        for r in out['samplers']:
            fam, ps = r['case']['family'], r['case']['params']
            if 'error' in r or not r.get('captured'): viol.append(dict(goal=f'{fam}{ps} sampler', n=None, observed=str(r.get('error')), expected='a sample')); continue
            mean, var, sup, _ = implied(fam, r['captured'])
            scale_out = 1.0
            if fam == 'Beta' and len(ps) == 3: scale_out = float(sp.Rational(ps[2]))
            if fam == 'Beta':
                # scale * beta.rvs(a, b): the probe's fake sampler returns 0.5
                got_scale = r['returned'] / 0.5; checked += 1
                if abs(got_scale - scale_out) > 1e-9: viol.append(dict(goal=f'{fam}{ps} scale', n=None, observed=str(got_scale), expected=str(scale_out)))
                mean, var, sup = mean * got_scale, var * got_scale ** 2, (0.0, got_scale)
            if mean is not None:
                m1 = float(sp.N(true_moment(fam, ps, 1))); m2 = float(sp.N(true_moment(fam, ps, 2))); checked += 2
                if abs(mean - m1) > 1e-9 * (1 + abs(m1)): viol.append(dict(goal=f'{fam}{ps} sampler mean', n=1, observed=str(mean), expected=str(m1)))
                if abs(var - (m2 - m1 ** 2)) > 1e-9 * (1 + abs(m2)): viol.append(dict(goal=f'{fam}{ps} sampler variance', n=2, observed=str(var), expected=str(m2 - m1 ** 2)))
            ts = true_support(fam, ps)
            if 'interval' in ts:
                lo, hi = [float(x) if x not in (sp.oo, -sp.oo) else (float('inf') if x == sp.oo else float('-inf')) for x in ts['interval']]
                checked += 1
                if abs(sup[0] - lo) > 1e-9 if lo not in (float('inf'), float('-inf')) else sup[0] != lo:
                    viol.append(dict(goal=f'{fam}{ps} sampler support', n=None, observed=str(sup), expected=str((lo, hi))))
                elif abs(sup[1] - hi) > 1e-9 if hi not in (float('inf'), float('-inf')) else sup[1] != hi:
                    viol.append(dict(goal=f'{fam}{ps} sampler support', n=None, observed=str(sup), expected=str((lo, hi))))
        return dict(status='violation' if viol else 'ok', checked=checked, violations=viol, nontrivial=True)
    st, out = common.run_probe('simulate.py', dict(src=it['src'], iterations=it['iterations']), timeout=it['budget'])
    if st == 'timeout': return dict(status='skipped', why='probe budget exceeded')
    if st == 'ok' and 'is not a number in state' in str(out.get('probe_error', '')):
        return dict(status='skipped', why='the simulator refuses a symbolic (uninitialised) value')
    if st != 'ok' or 'probe_error' in out: return dict(status='machinery-error', why=str(out))
    prog = lang.parse_program(it['src']); sem = lang.Sem(prog)
    ws = sem.init_worlds()
    names = sorted(sem.vars)
    for n in range(it['iterations'] + 1):
        want = {}
        for w in ws:
            try: key = tuple((v, float(sem.read(sp.Symbol(v), w.st))) for v in names if sp.Symbol(v) in w.st)
            except TypeError: return dict(status='skipped', why='symbolic state (uninitialised variable): nothing to simulate')
            want[key] = want.get(key, 0.0) + float(w.p)
        got = {}
        for p in out['paths']:
            s = p['states'][n]
            key = tuple((v, s[v]) for v in names if v in s)
            got[key] = got.get(key, 0.0) + p['prob']
        checked += 1
        keys = set(want) | set(got)
        bad = [k for k in keys if abs(want.get(k, 0.0) - got.get(k, 0.0)) > 1e-9]
        if bad:
            k = sorted(bad)[0]
            viol.append(dict(goal='simulated law', n=n, observed=f'P{dict(k)} = {got.get(k, 0.0)}', expected=f'{want.get(k, 0.0)}')); break
        ws = sem.iterate(ws)
    return dict(status='violation' if viol else 'ok', checked=checked, violations=viol, nontrivial=len(out['paths']) >= 2, paths=len(out['paths']))


def key_of(it, v):
    h = hashlib.sha1(it['src'].encode()).hexdigest()[:10]
    return f"C12:{h}:{it['name']}:{v['goal']}"


def run(tier, seed):
    its = items(tier, seed)
    res = pool.run_items(check_item, its, budget=400)
    r = summarise('C12', its, res, tier, keyfn=key_of,
                  rule="one case per (program, iteration n) for the simulated law -- all resolution paths of the real Simulator are enumerated exhaustively for "
                       "the listed discrete programs -- and per (family, parameters, mean/variance/support) for the sampler arguments; non-trivial = >= 2 paths; "
                       "distinct by program text",
                  explanation="Bounded part: exhaustive path enumeration of the real Simulator with scripted random sources on discrete programs (guard false on "
                              "entry, re-false, overlapping elif, simultaneous assignment, 3-way choice, nested else, and/or/not), compared with the independent "
                              "semantics; sampler arguments compared with the moments/support the analysis uses under scipy's parametrisation (assumed contracts).")
    for v in r['violations']:
        d = v['detail']
        v['what'] = f"{v['item']['name']}: {d['goal']} n={d.get('n')}: Polar {d['observed']} expected {d['expected']}"[:300]
    return r


def replay(d):
    r = check_item(d['item']); print(r); return r['status'] != 'violation'
