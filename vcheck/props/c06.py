"""C06 / C07 certificate + bounded part on tuples of exponential-polynomial closed forms (synthetic, and produced by the real CLI):
 C06: every basis polynomial vanishes on the goal sequences at T+2 consecutive n (T = term bound of the substituted expression) => all n;
 C07 (bounded by degree D): every polynomial relation of degree <= D among the goals, found by exact linear algebra on sequence values,
      reduces to zero modulo a Groebner basis (sympy 1.14, judge side) of the reported generators."""
import hashlib, itertools, random
import sympy as sp
from vcheck import common, judge, pool
from vcheck.props.c01 import summarise
from vcheck.props.c04 import term_bound

n = judge.N_INT

TUPLES = [
    dict(x='2**n', y='4**n'), dict(x='4**n', y='8**n'), dict(x='2**n', y='3**n', z='6**n'), dict(x='n', y='n**2'),
    dict(x='2**n + 1', y='4**n'), dict(x='(-1)**n', y='1'), dict(x='(-2)**n', y='4**n'), dict(x='2**n', y='(1/2)**n'),
    dict(x='n*2**n', y='2**n', z='n'), dict(x='3**n', y='9**n + n'), dict(x='2**n', y='3**n'), dict(x='n/2 + 1', y='n/2 + 1', v='1'),
    dict(x='9**n', y='27**n', z='3**n'), dict(x='2**n - 1', y='2**n + 1'), dict(x='(1/2)**n', y='(1/4)**n + 3'), dict(x='n**2 + 2**n', y='n', z='2**n'),
    dict(a='(-1)**n', b='2**n', c='(-2)**n'), dict(x='5', y='n'), dict(x='4**n', y='(1/2)**n'), dict(x='8**n + 4**n', y='2**n'),
    dict(x='12**n', y='18**n', z='(1/2)**n', w='(1/3)**n'),
    # dependent bases met in non-ascending order (alignment of lattice columns with abstraction symbols), and multiplicities 2,3,5 (generation)
    dict(x='6**n', y='180**n'), dict(x='12**n', y='150**n', z='n'),
    dict(x='4**n', y='2**n'), dict(x='8**n', y='2**n', z='4**n'), dict(x='4**n', y='8**n', z='32**n'), dict(x='32**n', y='4**n', z='8**n'),
]
PROGRAMS = [
("fib", "a, b = 0, 1\nwhile true:\n    a, b = b, a + b\nend", []),
("squares", "x = 0\ny = 0\nz = 1\nwhile true:\n    x = x + 1\n    y = y + 2*x - 1\n    z = 2*z\nend", []),
("rw_moments", "x, y = 0, 0\nwhile true:\n    x = x + 1 {1/2} x - 1\n    y = y + 1 {1/2} y - 1\nend", ['E(x)', 'E(y)', 'c2(x)', 'c2(y)']),
("geo", "x = 1\ny = 1\nwhile true:\n    x = 2*x\n    y = 4*y + x\nend", []),
("powers", "x = 1\ny = 1\nwhile true:\n    x = 4*x\n    y = 8*y\nend", []),
]


def items(tier, seed):
    rnd = random.Random(6000 + seed)
    tuples = list(TUPLES)
    bases = ['2', '4', '8', '1/2', '3', '9', '6', '-1', '-2', '1/4']
    for _ in range(12 if tier == 'quick' else 150):
        k = rnd.choice([2, 2, 3])
        t = {}
        for name in 'xyz'[:k]:
            terms = []
            for _ in range(rnd.choice([1, 1, 2])):
                c = rnd.choice(['', '2*', '-1*', 'n*'])
                terms.append(rnd.choice([f'{c}({rnd.choice(bases)})**n', f'{c}({rnd.choice(bases)})**n', 'n', '1', 'n**2']))
            t[name] = ' + '.join(terms)
        tuples.append(t)
    if tier != 'quick':
        # second family: pure geometric sequences over powers of 2, 3 (rank >= 2 exponent lattices, mixed multiplicities, signs), 3-4 goals
        rnd2 = random.Random(6100 + seed)
        for _ in range(400):
            k = rnd2.choice([3, 3, 4])
            t = {}
            for name in 'xyzw'[:k]:
                e2, e3 = rnd2.randint(-2, 5), rnd2.choice([0, 0, 1, 2, -1])
                sign = '-' if rnd2.random() < 0.2 else ''
                t[name] = f'({sign}{sp.Integer(2) ** e2 * sp.Integer(3) ** e3})**n'
            tuples.append(t)
    its = [dict(name='T' + str(i) + str(t), kind='tuple', cfs=t, D=2 if tier == 'quick' else 3, src=str(t), budget=120 if tier == 'quick' else 400) for i, t in enumerate(tuples)]
    for name, src, goals in PROGRAMS:
        its.append(dict(name='P_' + name, kind='cli', src=src, goals=goals, D=2, budget=200))
    return its


def parse_cf(text):
    return sp.sympify(text, locals={'n': n})


def analyse(cfs, basis, D):
    """cfs: {Symbol: expr in n}; basis: list of polynomials in the goal symbols"""
    viol, checked = [], 0
    syms = list(cfs)
    # ---- C06: every basis element vanishes for all n
    for q in basis:
        extra = q.free_symbols - set(syms)
        if extra:
            viol.append(dict(prop='C06', goal=f'basis element {q}', n=None, observed=f'mentions {extra}', expected='polynomial in the goal symbols only')); continue
        e = sp.expand(q.xreplace(cfs))
        T = term_bound(e, len(syms)) + 2
        for k in range(0, T + 1):
            v = sp.simplify(e.xreplace({n: sp.Integer(k)})); checked += 1
            ok, _ = judge.is_zero(v)
            if not ok:
                viol.append(dict(prop='C06', goal=f'basis element {q}', n=k, observed=f'value {v}', expected='0 on the goal sequences')); break
    # ---- C07: all relations of degree <= D lie in the ideal
    monos = [sp.Mul(*c) for d in range(0, D + 1) for c in itertools.combinations_with_replacement(syms, d)]
    seqs = [sp.expand(mn.xreplace(cfs)) if mn != 1 else sp.Integer(1) for mn in monos]
    tb = sum(term_bound(s, 1) for s in seqs)
    R = len(monos) + min(tb, 60) + 2
    rows = []
    for k in range(R):
        rows.append([sp.nsimplify(s.xreplace({n: sp.Integer(k)})) if s != 1 else sp.Integer(1) for s in seqs])
    V = sp.Matrix(rows)
    if all(x.is_Rational for x in V):
        ker = V.nullspace()
        if basis:
            G = sp.groebner(basis, *syms, order='grevlex')
        for vec in ker:
            p = sp.expand(sum(c * mn for c, mn in zip(vec, monos)))
            checked += 1
            if not basis:
                if p != 0: viol.append(dict(prop='C07', goal=f'relation {p}', n=None, observed='no invariants reported', expected='relation in the ideal')); break
                continue
            _, rem = sp.reduced(p, list(G.exprs), *syms, order='grevlex')
            if sp.expand(rem) != 0:
                viol.append(dict(prop='C07', goal=f'relation {p}', n=None, observed=f'remainder {rem} modulo reported basis {basis}', expected='remainder 0')); break
    return viol, checked


def check_item(it):
    if it['kind'] == 'tuple':
        cfs = {g: parse_cf(t) for g, t in it['cfs'].items()}
        st, out = common.run_probe('invariants.py', dict(tuples=[{g: sp.srepr(e) for g, e in cfs.items()}]), timeout=it['budget'])
        if st == 'timeout': return dict(status='skipped', why='probe budget exceeded')
        if st != 'ok' or 'probe_error' in out: return dict(status='machinery-error', why=str(out))
        r = out['results'][0]
        if 'error' in r: return dict(status='refused', why=f"{r['error']}: {r['msg']}")
        basis = [judge.from_srepr(b) for b in r['basis']]
        viol, checked = analyse({sp.Symbol(g): e for g, e in cfs.items()}, basis, it['D'])
        return dict(status='violation' if viol else 'ok', checked=checked, violations=viol[:3], nontrivial=len(basis) >= 1)
    # CLI: --invariants on a loop; goal sequences come from the printed closed forms (checked by C01) past their special cases
    import re
    args = ['--invariants'] + (['--goals'] + it['goals'] if it['goals'] else [])
    st, so, se = common.run_cli(it['src'], args, timeout=it['budget'])
    if st == 'timeout': return dict(status='skipped', why='cli budget exceeded')
    if st != 'ok': return dict(status='refused', why=se[-300:])
    cfs, basis, specials = {}, [], 0
    lines = so.splitlines()
    inv = False
    for line in lines:
        line = line.strip()
        if 'Invariants' in line: inv = True; continue
        if not inv:
            mm = re.match(r'^(E\(.*?\)|[ck]\d+\(.*?\)|[A-Za-z_][A-Za-z_0-9]*) = (.*)$', line)
            if mm and '|' not in mm.group(1):
                sp_, gen_ = common.parse_printed(mm.group(2))
                specials = max(specials, len(sp_))
                cfs[mm.group(1)] = gen_
        else:
            mm = re.match(r'^(.*) = 0$', line)
            if mm: basis.append(mm.group(1))
    if not cfs: return dict(status='refused', why='no closed forms printed')
    # goal identifiers like E(x), c2(x) are symbols in the printed basis
    names = {g: sp.Symbol(g) for g in cfs}
    def pb(text):
        t = text
        loc = {}
        for i, g in enumerate(sorted(cfs, key=len, reverse=True)):
            t = t.replace(g, f'GOAL{i}_'); loc[f'GOAL{i}_'] = names[g]
        return sp.sympify(t, locals=loc)
    bpolys = [pb(b) for b in basis]
    shift = {n: n + specials}           # sequences past the listed special cases
    cfs2 = {names[g]: e.xreplace(shift) for g, e in cfs.items()}
    viol, checked = analyse(cfs2, bpolys, it['D'])
    return dict(status='violation' if viol else 'ok', checked=checked, violations=viol[:3], nontrivial=len(bpolys) >= 1)


def key_of(it, v):
    return f"{v.get('prop', 'C06')}:{it['name']}:{v['goal']}"[:300]


def run_for(pid, tier, seed):
    its = items(tier, seed)
    res = pool.run_items(check_item, its, budget=300 if tier == 'quick' else 900)
    # keep only this property's violations
    for r in res:
        if 'violations' in r:
            r['violations'] = [v for v in r['violations'] if v.get('prop') == pid]
            if r['status'] == 'violation' and not r['violations']: r['status'] = 'ok'
    r = summarise(pid, its, res, tier, keyfn=key_of,
                  rule="one case per (tuple of closed forms, basis element, n) for C06 and per (tuple, kernel relation of degree <= D) for C07; tuples: fixed list "
                       "over bases {2,4,8,1/2,1/4,3,9,27,6,12,18,-1,-2} with polynomial coefficients, seeded random tuples, and goal tuples printed by the real "
                       "CLI with --invariants; non-trivial = non-empty reported basis; distinct by tuple",
                  explanation=("C06 certificate: each reported basis polynomial, with goals replaced by their closed forms, is an exponential polynomial whose exact "
                               "zero at T+2 consecutive n decides all n. " if pid == 'C06' else
                               "C07 bounded by degree: all polynomial relations of degree <= D (D=2 quick, 3 thorough) among the goal sequences are found by exact "
                               "rational linear algebra on sequence values (enough n for the term bound) and must reduce to 0 modulo a Groebner basis (computed "
                               "by the judge's sympy 1.14) of the reported generators; 'no invariants' requires an empty relation space. ")
                              + "The real InvariantIdeal / ExponentLattice / LatticeIdeal code runs in the probe. Never counted as proved.")
    for v in r['violations']:
        d = v['detail']
        v['what'] = f"{v['item']['name'][:80]}: {d['goal']}: {d['observed']} expected {d['expected']}"[:300]
    return r


def run(tier, seed): return run_for('C06', tier, seed)


def replay(d):
    r = check_item(d['item']); print(r); return r['status'] != 'violation'
