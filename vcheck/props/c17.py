"""C17 bounded part: the closed forms under every strategy/representation option equal the exact expectation (hence each other) at n <= N:
 cond2arithm, transform_categoricals, force_cyclic_solver, explicit finite types (with type inference disabled) vs inference;
 numeric root options: exact flag => exact equality, otherwise deviation within the requested precision."""
import hashlib, json, threading
import sympy as sp
from vcheck import common, judge, pool
from vcheck.props.c01 import summarise, goal_monos
from spec import lang, gen

VARIANTS = [('cond2arithm', dict(settings=dict(cond2arithm=True))), ('categoricals', dict(settings=dict(transform_categoricals=True))),
            ('force_cyclic', dict(solver=dict(force_cyclic=True))), ('both_c2a_cat', dict(settings=dict(cond2arithm=True, transform_categoricals=True))),
            ('explicit_types', dict(types=True, settings=dict(disable_type_inference=True))),
            ('numeric_roots', dict(solver=dict(force_cyclic=True, numeric_roots=True, numeric_eps=1e-12), numeric=True)),
            ('numeric_croots', dict(solver=dict(force_cyclic=True, numeric_croots=True), numeric=True))]


def items(tier, seed):
    base = [dict(name=n, src=s, vars=v) for n, s, v in gen.CURATED if n not in ('d18_uninit_under_guard',)]
    base += [dict(name=n, src=s, vars=v) for n, s, v in gen.family(8000 + seed, 8 if tier == 'quick' else 120)]
    if tier == 'quick': base = [b for b in base if b['name'] in ('rw2', 'readme', 'fib', 'elif3', 'reassign_cond', 'guard_geo', 'nested', 'du', 'param', 'or_overlap', 'three_way_overlap', 'guard_two', 'swap', 'const_in_cond', 'alias_reuse_rhs', 'real_roots_rational_largest') or b['name'].startswith('gen')]
    for it in base:
        it['nmax'] = 4 if tier == 'quick' else 6; it['budget'] = 60 if tier == 'quick' else 200; it['oracle_s'] = 8 if tier == 'quick' else 40
    return base


def reach_types(prog, sem_iters=4):
    """finite value sets observed by the reference semantics (for the explicit-types variant): variables with few numeric values"""
    sem = lang.Sem(prog, max_worlds=3000); ws = sem.init_worlds(); vals = {}
    try:
        for n in range(sem_iters + 1):
            for w in ws:
                for k, v in w.st.items(): vals.setdefault(k.name, set()).add(v)
            ws = sem.iterate(ws)
    except lang.Unsupported:
        return {}
    return vals


def check_item(it):
    src = it['src']
    try:
        prog = lang.parse_program(src)
    except lang.Unsupported as ex:
        return dict(status='skipped', why=f'oracle: {ex}')
    vars_ = [sp.Symbol(v) for v in it['vars']]
    monos = goal_monos(vars_)[:4]
    try:
        spec = lang.expected_values(prog, monos, it['nmax'], seconds=it['oracle_s'], max_worlds=3000)
    except lang.Unsupported as ex:
        return dict(status='skipped', why=f'oracle: {ex}')
    nreach = len(spec[monos[0]]) - 1
    viol, checked, ran = [], 0, []
    from concurrent.futures import ThreadPoolExecutor
    jobs = []
    for vname, var in VARIANTS:
        s2 = src
        if var.get('types'):
            if prog.types or 'types' in src: continue
            # declare the condition variables' types explicitly: only variables that stayed within <= 4 numeric values over 8 iterations
            vals = reach_types(prog, 8)
            cond_vars = set()
            def walk(ss):
                for s in ss:
                    if isinstance(s, lang.If):
                        for c in s.conds: cvars(c, cond_vars)
                        for b in s.branches: walk(b)
                        if s.els: walk(s.els)
            def cvars(c, acc):
                if isinstance(c, lang.CAtom): acc.update(x.name for x in (c.l.free_symbols | c.r.free_symbols))
                for k in ('a', 'b', 'c'):
                    if hasattr(c, k) and isinstance(getattr(c, k), lang.Cond): cvars(getattr(c, k), acc)
            walk(prog.body); cvars(prog.guard, cond_vars)
            decl = {v: sorted(vals[v], key=lambda x: float(x)) for v in cond_vars if v in vals and len(vals[v]) <= 4 and all(x.is_number for x in vals[v])}
            if not decl or set(decl) != {v for v in cond_vars if v in sem_vars(prog)}: continue
            s2 = 'types\n' + '\n'.join(f'    {v} : Finite({", ".join(str(x) for x in xs)})' for v, xs in decl.items()) + '\nend\n' + src
        jobs.append((vname, var, dict(src=s2, goals=[str(m) for m in monos], settings=var.get('settings'), solver=var.get('solver'))))
    with ThreadPoolExecutor(max_workers=4) as tp:
        futs = [(vname, var, tp.submit(common.run_probe, 'analyze.py', payload, it['budget'])) for vname, var, payload in jobs]
        done = [(vname, var, f.result()) for vname, var, f in futs]
    for vname, var, (st, out) in done:
        if st == 'timeout': continue
        if st != 'ok' or 'probe_error' in out: return dict(status='machinery-error', why=str(out))
        if 'parse_error' in out or 'normalize_error' in out: continue        # a refusal under an option is allowed
        ran.append(vname)
        for m in monos:
            r = out['goals'][str(m)]
            if 'error' in r: continue
            cf = judge.from_srepr(r['closed_form'])
            if any(str(x).startswith('_prob') for x in cf.free_symbols): continue    # condition abstracted as a documented symbolic probability
            for n in range(nreach + 1):
                got = judge.at_n(cf, n); checked += 1
                if var.get('numeric') and not r.get('is_exact'):
                    dv = abs(sp.N(got - spec[m][n], 30)); tol = sp.Float('1e-6') * (1 + abs(sp.N(spec[m][n], 30))) * (n + 1)
                    ok = dv <= tol if not spec[m][n].free_symbols else True
                else:
                    ok, _ = judge.is_zero(got - spec[m][n])
                if not ok:
                    viol.append(dict(goal=f'[{vname}] E({m})', n=n, observed=str(got)[:120], expected=str(spec[m][n])[:120], is_exact=r.get('is_exact'))); break
    return dict(status='violation' if viol else 'ok', checked=checked, violations=viol[:4], nontrivial=len(ran) >= 3, variants=ran)


def sem_vars(prog): return lang.Sem(prog).vars


def key_of(it, v):
    h = hashlib.sha1(it['src'].encode()).hexdigest()[:10]
    return f"C17:{h}:{it['name']}:{v['goal']}"


def run(tier, seed):
    its = items(tier, seed)
    res = pool.run_items(check_item, its, budget=600)
    r = summarise('C17', its, res, tier, keyfn=key_of,
                  rule="one case per (program, option variant, goal, n <= N); variants: cond2arithm, transform_categoricals, both, force_cyclic_solver, explicit types "
                       "with inference disabled, numeric_roots, numeric_croots; non-trivial = >= 3 variants produced a result; distinct by program text",
                  explanation="Bounded part: every option variant of the real pipeline is compared with the exact expectation from the independent semantics (the "
                              "default setting is compared with the same reference in C01), exact equality unless the result is flagged rounded, in which case the "
                              "deviation must be within 1e-6 relative (requested root precision 1e-12 / N() precision).")
    for v in r['violations']:
        d = v['detail']
        v['what'] = f"{v['item']['name']}: {d['goal']} n={d.get('n')}: Polar {d['observed']} expected {d['expected']} (is_exact={d.get('is_exact')})"[:300]
    return r


def replay(d):
    r = check_item(d['item']); print(r); return r['status'] != 'violation'
