"""C16 bounded part: postcondition of ExponentLattice.compute_basis on family L:
  (1) every returned vector e satisfies prod b_i^e_i == 1 exactly; (2) the vectors are linearly independent (exact rank);
  (3) generation: rational lists -- the returned lattice equals the ground-truth lattice (own prime-exponent matrix with parity column,
      own integer kernel by unimodular elimination); algebraic lists -- every relation in the box |e_i| <= B is an integer combination."""
import hashlib, itertools, random
from fractions import Fraction
import sympy as sp
from vcheck import common, judge, pool
from vcheck.props.c01 import summarise

POOL_RAT = ['2', '-2', '4', '-4', '8', '1/2', '1/4', '3', '9', '27', '6', '2/3', '-1', '1', '12', '18', '1/3', '-1/2', '5', '10']
POOL_ALG = ['I', '-I', 'sqrt(2)', '1+sqrt(2)', '1-sqrt(2)', '(1+sqrt(5))/2', '(1-sqrt(5))/2', '-1/2+sqrt(3)*I/2', 'sqrt(2)/2+sqrt(2)*I/2', '2', '-1', '1/2', '4', '3', '-2']


def int_kernel(rows, n):
    """basis of {x in Z^n : M x = 0} for integer matrix M (list of rows): unimodular row reduction of [M^T | I]"""
    work = [[int(r[c]) for r in rows] + [1 if c == k else 0 for k in range(n)] for c in range(n)]
    m = len(rows); piv = 0
    for col in range(m):
        while True:
            nz = [r for r in range(piv, n) if work[r][col] != 0]
            if len(nz) <= 1: break
            rmin = min(nz, key=lambda r: abs(work[r][col]))
            for r in nz:
                if r != rmin:
                    q = work[r][col] // work[rmin][col]
                    work[r] = [a - q * b for a, b in zip(work[r], work[rmin])]
        nz = [r for r in range(piv, n) if work[r][col] != 0]
        if nz:
            work[piv], work[nz[0]] = work[nz[0]], work[piv]; piv += 1
    return [row[m:] for row in work[piv:]]


def truth_rational(bases):
    n = len(bases); primes = {}
    sign = [0] * n
    for i, b in enumerate(bases):
        if b < 0: sign[i] = 1
        for p, e in sp.factorint(abs(b.p)).items(): primes.setdefault(p, [0] * n)[i] += e
        for p, e in sp.factorint(b.q).items(): primes.setdefault(p, [0] * n)[i] -= e
    rows = [v + [0] for v in primes.values()] + [sign + [2]]
    ker = int_kernel(rows, n + 1)
    return [v[:n] for v in ker]


def in_lattice(vec, basis):
    """vec is an integer combination of the (independent) basis vectors"""
    if not basis: return all(x == 0 for x in vec)
    B = sp.Matrix(basis).T
    try:
        sol = B.solve(sp.Matrix(vec)) if B.shape[0] == B.shape[1] else (B.pinv() * sp.Matrix(vec))
    except Exception:
        sol = B.pinv() * sp.Matrix(vec)
    if B * sol != sp.Matrix(vec): return False
    return all(x.is_integer for x in sol)


def is_one(expr):
    e = sp.simplify(expr - 1)
    if e == 0: return True
    try:
        x = sp.Symbol('x')
        return sp.minimal_polynomial(expr - 1, x) == x
    except Exception:
        return abs(sp.N(expr - 1, 60)) < sp.Float('1e-50')


def items(tier, seed):
    rnd = random.Random(7000 + seed)
    lists = []
    fixed = [['4', '8'], ['8', '4'], ['1', '2'], ['12', '18', '1/2', '1/3'], ['-2', '4'], ['4', '-2'], ['-2', '1/2'], ['-3', '9', '2'], ['-2', '3', '-6'],
             ['-1', '2', '1/2'], ['9', '27', '3'], ['4', '1/2'], ['2', '2'], ['-1', '-1'], ['1', '1'], ['-1'], ['1'], ['2', '3', '6'], ['2', '1/2'], ['6', '2/3', '4', '9'],
             ['I', '-1'], ['I', '-I'], ['sqrt(2)', '2'], ['1+sqrt(2)', '1-sqrt(2)'], ['(1+sqrt(5))/2', '(1-sqrt(5))/2'], ['-1/2+sqrt(3)*I/2', '-1'],
             ['sqrt(2)', '2', '4'], ['I', 'sqrt(2)/2+sqrt(2)*I/2'], ['2', 'sqrt(2)', '1/2'], ['1+sqrt(2)', '1-sqrt(2)', '-1'],
             # rank >= 2 with multiplicities of which the smallest does not divide the others (a non-unimodular elimination loses generators)
             # more distinct primes than bases, leading constraint rows dependent (every equation must be eliminated, not only the first k)
             ['6', '180'], ['6', '180', '5'], ['12', '150'], ['10', '40', '7'], ['-6', '180'],
             ['4', '8', '32'], ['32', '4', '8'], ['9', '27', '243'], ['-4', '8', '32'], ['4', '8', '32', '1/2'], ['8', '32', '128', '3']]
    lists += fixed
    nr = 40 if tier == 'quick' else 400
    for _ in range(nr):
        k = rnd.choice([2, 2, 3, 3, 4] if tier != 'quick' else [2, 3, 3])
        lists.append([rnd.choice(POOL_RAT) for _ in range(k)])
    if tier != 'quick':
        # second family: powers of few primes with mixed multiplicities and signs (rank >= 2 lattices whose generators need gcd steps), up to 5 bases
        rnd2 = random.Random(7100 + seed)
        for _ in range(900):
            k = rnd2.choice([3, 3, 4, 4, 5])
            primes = rnd2.sample([2, 3, 5], rnd2.choice([1, 2, 2, 3]))
            l = []
            for _j in range(k):
                v = sp.Integer(1)
                for p_ in primes: v *= sp.Integer(p_) ** rnd2.randint(-3, 5)
                if rnd2.random() < 0.25: v = -v
                l.append(str(v))
            lists.append(l)
    for _ in range(8 if tier == 'quick' else 80):
        k = rnd.choice([2, 3])
        lists.append([rnd.choice(POOL_ALG) for _ in range(k)])
    return [dict(name='L[' + ', '.join(l) + ']', bases=l, src=str(l), box=3 if tier == 'quick' else 5, budget=90 if tier == 'quick' else 300) for l in lists]


def check_item(it):
    bases = [sp.sympify(b) for b in it['bases']]
    st, out = common.run_probe('lattice.py', dict(lists=[[sp.srepr(b) for b in bases]]), timeout=it['budget'])
    if st == 'timeout': return dict(status='skipped', why='probe budget exceeded')
    if st != 'ok' or 'probe_error' in out: return dict(status='machinery-error', why=str(out))
    r = out['results'][0]
    if 'error' in r: return dict(status='refused', why=f"{r['error']}: {r['msg']}")
    basis = r['basis']; n = len(bases)
    viol, checked = [], 0
    for v in basis:
        checked += 1
        if len(v) != n: viol.append(dict(goal='vector length', n=None, observed=str(v), expected=f'length {n}')); continue
        if not is_one(sp.Mul(*[b ** e for b, e in zip(bases, v)])):
            viol.append(dict(goal='relation', n=None, observed=f'{v} in basis {basis}', expected='product of powers equals 1'))
    if basis:
        checked += 1
        if sp.Matrix(basis).rank() != len(basis):
            viol.append(dict(goal='independence', n=None, observed=str(basis), expected='linearly independent vectors'))
    if not viol:
        if all(b.is_Rational for b in bases):
            truth = truth_rational(bases)
            checked += 1
            if len(truth) != len(basis) or not all(in_lattice(t, basis) for t in truth):
                viol.append(dict(goal='generation', n=None, observed=str(basis), expected=f'lattice generated by {truth}'))
        else:
            B = it['box']
            num = [complex(sp.N(sp.log(b), 30)) for b in bases]
            import cmath, math
            for e in itertools.product(range(-B, B + 1), repeat=n):
                if all(x == 0 for x in e): continue
                z = sum(x * l for x, l in zip(e, num))
                if abs(z.real) > 1e-9: continue
                k = z.imag / (2 * math.pi)
                if abs(k - round(k)) > 1e-9: continue
                if not is_one(sp.Mul(*[b ** x for b, x in zip(bases, e)])): continue
                checked += 1
                if not in_lattice(list(e), basis):
                    viol.append(dict(goal='generation', n=None, observed=str(basis), expected=f'relation {list(e)} is an integer combination')); break
    return dict(status='violation' if viol else 'ok', checked=checked, violations=viol[:2], nontrivial=len(basis) >= 1)


def key_of(it, v):
    return f"C16:{it['name']}:{v['goal']}"


def run(tier, seed):
    its = items(tier, seed)
    res = pool.run_items(check_item, its, budget=150 if tier == 'quick' else 500)
    r = summarise('C16', its, res, tier, keyfn=key_of,
                  rule="one case per (list of bases, returned vector / independence / generation); lists: fixed corner cases (shared prime factors with "
                       "different multiplicities, units, repetitions, negative bases, roots of unity, golden ratio, sqrt(2) units) + seeded random lists "
                       "over the rational and algebraic pools; non-trivial = non-empty returned basis; distinct by list",
                  explanation="Bounded part: the real ExponentLattice.compute_basis on family L; relation and independence are decided exactly; generation "
                              "is decided exactly for rational lists against the judge's own integer-kernel computation and, for algebraic lists, for all "
                              "relations in a box (stated bound).")
    for v in r['violations']:
        d = v['detail']
        v['what'] = f"{v['item']['name']}: {d['goal']}: Polar {d['observed']} expected {d['expected']}"[:300]
    return r


def replay(d):
    r = check_item(d['item']); print(r); return r['status'] != 'violation'
