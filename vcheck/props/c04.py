"""C04 certificate part: postcondition of RecurrenceSolver.get on family M (Jordan structures) —
   closed form(n) == (A^n v)_i at n = 0 .. s+d+T-1  =>  for all n (C-finite argument, DESIGN 2.3)."""
import hashlib, itertools, random
import sympy as sp
from vcheck import common, judge, pool
from vcheck.props.c01 import summarise

n_sym = judge.N_INT


def jordan(lam, k):
    return sp.Matrix(k, k, lambda i, j: lam if i == j else (1 if j == i + 1 else 0))


def companion(coeffs):
    """companion matrix of x^k + c_{k-1} x^{k-1} + ... + c_0 (coeffs = [c_0..c_{k-1}])"""
    k = len(coeffs)
    return sp.Matrix(k, k, lambda i, j: (-coeffs[i] if j == k - 1 else 0) + (1 if i == j + 1 else 0))


BLOCKS = {
    'J0_1': lambda: jordan(0, 1), 'J0_2': lambda: jordan(0, 2), 'J0_3': lambda: jordan(0, 3),
    'J1_1': lambda: jordan(1, 1), 'J1_2': lambda: jordan(1, 2), 'J1_3': lambda: jordan(1, 3),
    'Jm1_1': lambda: jordan(-1, 1), 'Jm1_2': lambda: jordan(-1, 2),
    'J2_1': lambda: jordan(2, 1), 'J2_2': lambda: jordan(2, 2), 'J2_3': lambda: jordan(2, 3),
    'Jh_1': lambda: jordan(sp.Rational(1, 2), 1), 'Jh_2': lambda: jordan(sp.Rational(1, 2), 2),
    'Jt_1': lambda: jordan(sp.Rational(1, 3), 1),
    'gold': lambda: companion([-1, -1]),          # x^2 - x - 1
    'i': lambda: companion([1, 0]),               # x^2 + 1
    'w': lambda: companion([1, 1]),               # x^2 + x + 1
    'Ja_1': lambda: jordan(sp.Symbol('a'), 1), 'Ja_2': lambda: jordan(sp.Symbol('a'), 2),
    'sqrt2': lambda: companion([-2, 0]),          # x^2 - 2
}


def unimodular(rnd, d):
    P = sp.eye(d)
    for _ in range(2 * d):
        i, j = rnd.randrange(d), rnd.randrange(d)
        if i != j: P[i, :] = P[i, :] + rnd.choice([1, -1, 2]) * P[j, :]
    return P


def make_item(name, blocks, rnd, conj=True, inhom=False, symbolic_init=False, triangular=False):
    mats = [BLOCKS[b]() for b in blocks]
    A = sp.diag(*mats)
    d = A.shape[0]
    if triangular:
        # keep upper-triangular: acyclic dependency graph; add random strictly-upper entries
        for i in range(d):
            for j in range(i + 1, d):
                if A[i, j] == 0 and rnd.random() < 0.4: A[i, j] = rnd.choice([1, -1, 2, sp.Rational(1, 2)])
    elif conj and d > 1:
        P = unimodular(rnd, d)
        A = P * A * P.inv()
    A = A.applyfunc(sp.expand)
    c = [sp.Integer(rnd.choice([0, 1, -2, 3])) if inhom else sp.Integer(0) for _ in range(d)]
    v = [sp.Symbol(f'v{i}') if symbolic_init else sp.Integer(rnd.choice([0, 1, -1, 2, 3])) for i in range(d)]
    xs = [sp.Symbol(f'x{i}') for i in range(d)]
    rec = {f'x{i}': sp.srepr(sp.expand(sum(A[i, j] * xs[j] for j in range(d)) + c[i])) for i in range(d)}
    init = {f'x{i}': sp.srepr(v[i]) for i in range(d)}
    params = sorted({str(s) for s in A.free_symbols} | {str(s) for x in v for s in x.free_symbols})
    return dict(name=name, blocks=blocks, rec=rec, init=init, params=params, monomials=[f'x{i}' for i in range(d)],
                A=[[sp.srepr(A[i, j]) for j in range(d)] for i in range(d)], c=[sp.srepr(x) for x in c], v=[sp.srepr(x) for x in v])


def items(tier, seed):
    rnd = random.Random(4000 + seed)
    its = []
    names = list(BLOCKS)
    # all single blocks, all pairs (quick) / triples (thorough) up to dimension bound
    combos = [(b,) for b in names] + list(itertools.combinations_with_replacement(names, 2))
    if tier != 'quick': combos += list(itertools.combinations(names, 3))
    dim = lambda cb: sum(BLOCKS[b]().shape[0] for b in cb)
    maxd = 4 if tier == 'quick' else 6
    combos = [cb for cb in combos if dim(cb) <= maxd]
    if tier == 'quick':
        rnd.shuffle(combos); combos = [(b,) for b in names] + [cb for cb in combos if len(cb) > 1][:60]
    for k, cb in enumerate(combos):
        nsym = sum(b.startswith('Ja') for b in cb)
        mode = k % 4
        its.append(make_item(f'M{k}_' + '+'.join(cb), cb, rnd, conj=(nsym == 0), inhom=(mode in (1, 3)),
                             symbolic_init=(mode == 2 and dim(cb) <= 3), triangular=(mode == 3 or nsym > 0)))
    for it in its:
        it['variants'] = [dict(), dict(force_cyclic=True)]
        it['budget'] = 60 if tier == 'quick' else 240
    # numeric root options on a few irrational systems
    for b in ('gold', 'sqrt2', 'i'):
        it = make_item(f'Mnum_{b}', (b, 'J2_1'), rnd, conj=True)
        it['variants'] = [dict(numeric_roots=True, numeric_eps=1e-10, force_cyclic=True), dict(numeric_croots=True, force_cyclic=True)]
        it['budget'] = 60
        its.append(it)
    return its


def term_bound(expr, d):
    """upper bound on the number of exponential-polynomial terms of expr in n"""
    try:
        e = sp.expand(expr)
        bases = set()
        for p in e.atoms(sp.Pow):
            if p.exp.has(n_sym) or p.exp.has(judge.N_PLAIN): bases.add(p.base)
        deg = 0
        for t in sp.Add.make_args(e):
            for f in sp.Mul.make_args(t):
                if f == n_sym or f == judge.N_PLAIN: deg = max(deg, 1)
                if f.is_Pow and f.base in (n_sym, judge.N_PLAIN) and f.exp.is_Integer: deg = max(deg, int(f.exp))
        return (len(bases) + 1) * (deg + 1)
    except Exception:
        return 2 * d + 2


def check_item(it):
    st, out = common.run_probe('solve.py', dict(monomials=it['monomials'], rec=it['rec'], init=it['init'], params=it['params'],
                                                variants=it['variants']), timeout=it['budget'])
    if st == 'timeout': return dict(status='skipped', why='probe budget exceeded')
    if st != 'ok' or 'probe_error' in out: return dict(status='machinery-error', why=str(out))
    A = sp.Matrix([[judge.from_srepr(x) for x in row] for row in it['A']])
    c = sp.Matrix([judge.from_srepr(x) for x in it['c']])
    v = sp.Matrix([judge.from_srepr(x) for x in it['v']])
    d = A.shape[0]
    viol, checked, how = [], 0, set()
    seqs = {}
    for var_out in out['variants']:
        var = var_out['variant']
        numeric = bool(var.get('numeric_roots') or var.get('numeric_croots'))
        if 'error' in var_out:
            # a refusal is allowed (C04 speaks about returned closed forms); recorded
            how.add('refused:' + var_out['error']); continue
        for i, m in enumerate(it['monomials']):
            s = var_out['sols'][m]
            if 'error' in s: how.add('refused:' + s['error']); continue
            cf = judge.from_srepr(s['cf'])
            specials = 0
            for pw in cf.atoms(sp.Piecewise):
                specials = max(specials, len(pw.args) - 1)
            N = specials + (d + 1) + term_bound(cf, d) + 1
            x = v
            for n in range(N + 1):
                got = judge.at_n(cf, n)
                exp_ = x[i]
                checked += 1
                if numeric and not var_out.get('is_exact'):
                    dv = abs(complex(sp.N(got - exp_, 30)))
                    tol = 1e-6 * max(1.0, abs(complex(sp.N(exp_, 30)))) * (n + 1)
                    ok = dv <= tol; how.add('numeric-tolerance')
                else:
                    ok, h = judge.is_zero(sp.expand(got - exp_)); how.add(h)
                if not ok:
                    viol.append(dict(goal=f"{m}[{var_out.get('solver')},{var}]", n=n, observed=str(got)[:200], expected=str(exp_)[:200],
                                     is_exact=var_out.get('is_exact')))
                    break
                x = (A * x + c).applyfunc(sp.expand)
        if numeric and var_out.get('is_exact') and any(b in it['blocks'] for b in ('gold', 'sqrt2')) and var.get('numeric_roots'):
            viol.append(dict(goal=f'is_exact[{var}]', n=0, observed='is_exact=True with numeric irrational roots', expected='is_exact=False'))
    return dict(status='violation' if viol else 'ok', checked=checked, violations=viol, how=sorted(how), nontrivial=d >= 2)


def key_of(it, v):
    h = hashlib.sha1((str(it['rec']) + str(it['init']) + v['goal']).encode()).hexdigest()[:12]
    return f"C04:{h}:{it['name']}:{v['goal']}"


def run(tier, seed):
    its = items(tier, seed)
    res = pool.run_items(check_item, its, budget=150 if tier == 'quick' else 500)
    for it in its: it['src'] = str(it['rec']) + ' init ' + str(it['init'])
    return summarise('C04', its, res, tier, keyfn=key_of,
                     rule="one case per (system, solver variant, component, n); systems = Jordan/companion block structures over eigenvalues "
                          "{0,1,-1,2,1/2,1/3,golden,i,omega,sqrt2,symbolic a}, conjugated by random unimodular matrices or triangular, with/without constant "
                          "inhomogeneous part, numeric/symbolic initial vectors; non-trivial = dimension >= 2; distinct by system text",
                     explanation="Certificate part: the real Recurrences + RecurrenceSolver (both solvers; numeric-root options) run on family M; "
                                 "each returned closed form is compared exactly with the iterates A^n v computed by the judge at n = 0..s+d+T "
                                 "(special cases + dimension + term bound), which by the C-finite argument decides every n >= 0 for that system. "
                                 "Bounded in the family of systems; never counted as proved.")


def replay(d):
    r = check_item(d['item']); print(r); return r['status'] != 'violation'
