"""C02 bounded part: postcondition of every Transformer.execute and of normalize_program on family G x option settings:
   the program after pass k induces the same joint mixed moments (total degree <= 2; exact) over the source variables at every
   iteration boundary n <= N as the program before it (and as the source text under the reference semantics), and the
   post-state law of source variables does not depend on the pre-state of auxiliary variables."""
import hashlib, json, time
import sympy as sp
from vcheck import common, judge, pool
from vcheck.props.c01 import summarise, goal_monos
from spec import lang, gen, flat

EXTRA = []


def items(tier, seed):
    base = [dict(name=n, src=s, vars=v) for n, s, v in EXTRA + gen.CURATED]
    base += [dict(name=n, src=s, vars=v) for n, s, v in gen.family(2000 + seed, 12 if tier == 'quick' else 150)]
    its = []
    for it in base:
        for sname, settings in (('default', {}), ('cond2arithm', dict(cond2arithm=True)), ('categoricals', dict(transform_categoricals=True))):
            if tier == 'quick' and sname != 'default' and not (it['name'] in ('elif3', 'readme', 'or_overlap', 'guard_two', 'reassign_cond', 'three_way_overlap', 'nested')):
                continue
            d = dict(it); d['settings'] = settings; d['name'] = f"{it['name']}@{sname}"
            d['nmax'] = 3 if tier == 'quick' else 4; d['budget'] = 45 if tier == 'quick' else 150; d['oracle_s'] = 20 if tier == 'quick' else 60
            its.append(d)
    return its


def strip_meta(pj):
    return json.dumps(dict(i=pj['initial'], g=pj['guard'], b=pj['body']), sort_keys=True)


def moments_of(pj, monos, nmax, deadline):
    sem = flat.FlatSem(pj, max_worlds=3000)
    ws = sem.init_worlds()
    out = []
    for n in range(nmax + 1):
        out.append([sem.expect(m, ws) for m in monos])
        if n < nmax:
            if time.time() > deadline and n >= 1: break
            ws = sem.iterate(ws)
    return out, sem, ws


def check_item(it):
    st, out = common.run_probe('analyze.py', dict(src=it['src'], goals=[], settings=it['settings'], snapshots=True), timeout=it['budget'])
    if st == 'timeout': return dict(status='skipped', why='probe budget exceeded')
    if st != 'ok' or 'probe_error' in out: return dict(status='machinery-error', why=str(out))
    if 'parse_error' in out: return dict(status='refused', why=str(out['parse_error']))
    passes = out['passes']
    if 'normalize_error' in out and len(passes) <= 1: return dict(status='refused', why=str(out['normalize_error']))
    final = passes[-1]['program']
    if final.get('abstracted'): return dict(status='skipped', why='abstracted conditions (symbolic probability)')
    vars_ = [sp.Symbol(v) for v in it['vars']]
    monos = goal_monos(vars_)
    t0 = time.time()
    # reference: source text under the independent parser + semantics
    try:
        ref = lang.expected_values(it['src'], monos, it['nmax'], seconds=it['oracle_s'] / 3, max_worlds=3000)
    except lang.Unsupported as ex:
        return dict(status='skipped', why=f'oracle: {ex}')
    nreach = len(ref[monos[0]]) - 1
    viol, checked, cache = [], 0, {}
    prev_name = 'source text'
    for ps in passes:
        pj = ps['program']
        # loop constants folded away by ConstantsTransformer are no longer program variables: compare the remaining ones
        live = [m for m in monos if all(str(s) in pj['variables'] for s in m.free_symbols)]
        key = strip_meta(pj)
        if key not in cache:
            try:
                cache[key] = moments_of(pj, monos, nreach, t0 + it['oracle_s'])[0]
            except lang.Unsupported as ex:
                cache[key] = None
        seq = cache[key]
        if seq is None: continue
        bad = None
        for n in range(min(nreach, len(seq) - 1) + 1):
            for j, m in enumerate(monos):
                if m not in live: continue
                checked += 1
                ok, _ = judge.is_zero(seq[n][j] - ref[m][n])
                if not ok:
                    bad = dict(goal=f"{ps['name']}:{m}", n=n, observed=str(seq[n][j]), expected=str(ref[m][n]), after_pass=ps['name'], before=prev_name)
                    break
            if bad: break
        if bad:
            viol.append(bad); break       # first pass that changes the law
        prev_name = ps['name']
    # auxiliaries carry no information across iterations (final program)
    if not viol and 'normalize_error' not in out:
        try:
            sem = flat.FlatSem(final, max_worlds=3000)
            ws = sem.init_worlds(); ws = sem.iterate(ws)
            aux = [v for v in final['variables'] if v not in final['original_variables']]
            marks = {sp.Symbol(v): sp.Symbol(f'AUXPRE_{v}') for v in aux}
            for w in ws:
                for a, mk in marks.items(): w.st[a] = mk
            ws2 = sem.iterate(ws)
            for m in monos:
                if not all(str(s) in final['variables'] for s in m.free_symbols): continue
                e = sem.expect(m, ws2); checked += 1
                if e.free_symbols & set(marks.values()):
                    viol.append(dict(goal=f'aux-carry:{m}', n=2, observed=str(e), expected='independent of auxiliary pre-state'))
                    break
        except lang.Unsupported:
            pass
    return dict(status='violation' if viol else 'ok', checked=checked, violations=viol, nontrivial=checked >= 20, passes=[p['name'] for p in passes])


def key_of(it, v):
    h = hashlib.sha1((it['src'] + json.dumps(it['settings'], sort_keys=True) + v['goal']).encode()).hexdigest()[:12]
    return f"C02:{h}:{it['name']}:{v['goal']}"


def run(tier, seed):
    its = items(tier, seed)
    res = pool.run_items(check_item, its, budget=150 if tier == 'quick' else 500)
    r = summarise('C02', its, res, tier, keyfn=key_of,
                  rule="one case per (program, option setting, pass snapshot, source monomial of degree <= 2, n <= N); snapshots are taken by wrapping "
                       "every Transformer.execute while the REAL normalize_program runs; non-trivial = >= 20 cases decided; distinct by (text, settings)",
                  explanation="Bounded part: after every pass of the real normalize_program (snapshots), the program's joint mixed moments of the source "
                              "variables (degree <= 2, n <= N, exact) equal those of the source text under the independent reference semantics; the "
                              "post-state law of source variables is independent of auxiliary pre-state. Settings: default, cond2arithm, "
                              "transform_categoricals. Equality of laws is checked through moments up to total degree 2 (stated bound).")
    for v in r['violations']:
        d = v['detail']
        v['what'] = f"{v['item']['name']}: after pass {d.get('after_pass')} (ok after {d.get('before')}): E({d['goal']}) at n={d['n']} is {d['observed']} expected {d['expected']}"[:300]
    return r


def replay(d):
    r = check_item(d['item']); print(r); return r['status'] != 'violation'
