"""C13 bounded part: postcondition of FunctionalAssignment.get_func_moment / get_const_moment on family D x exponent triples, against the
defining integral / sum evaluated by the judge (mpmath 40 digits; exact sums for discrete families): equality to 1e-17 relative in rounding
mode (documented ~20 digit rational rounding), 1e-30 in exact mode; non-existent exponential moments and Sin/Cos mixed with Exp must be
refused.  End-to-end: loops accumulating products of a draw and its Sin/Cos/Exp (also through a reference variable, also of constants)."""
import hashlib, itertools
import sympy as sp
import mpmath as mp
from vcheck import common, judge, pool
from vcheck.props.c01 import summarise
from spec import lang

mp.mp.dps = 50


def density(fam, P):
    """(pdf, integration points) or ('discrete', [(value, prob)])"""
    f = lambda x: mp.mpf(sp.N(sp.Rational(x) if not isinstance(x, sp.Basic) else x, 50))
    P = [lang.parse_arith(p) for p in P]
    if fam == 'Bernoulli': return 'discrete', [(0, 1 - P[0]), (1, P[0])]
    if fam == 'DiscreteUniform':
        vs = list(range(int(P[0]), int(P[1]) + 1)); return 'discrete', [(v, sp.Rational(1, len(vs))) for v in vs]
    if fam == 'Normal':
        mu, s = f(P[0]), mp.sqrt(f(P[1]))
        return (lambda x: mp.exp(-((x - mu) / s) ** 2 / 2) / (s * mp.sqrt(2 * mp.pi))), [mu - 40 * s, mu - 8 * s, mu, mu + 8 * s, mu + 40 * s]
    if fam == 'Uniform':
        a, b = f(P[0]), f(P[1]); return (lambda x: 1 / (b - a)), [a, b]
    if fam == 'Laplace':
        mu, b = f(P[0]), f(P[1]); return (lambda x: mp.exp(-abs(x - mu) / b) / (2 * b)), [mu - 150 * b, mu - 10 * b, mu, mu + 10 * b, mu + 150 * b]
    if fam == 'DistExp':
        l = f(P[0]); return (lambda x: l * mp.exp(-l * x)), [0, 5 / l, 40 / l, 300 / l]
    if fam == 'Gamma':
        k, th = f(P[0]), f(P[1]); return (lambda x: x ** (k - 1) * mp.exp(-x / th) / (mp.gamma(k) * th ** k)), [0, k * th, 10 * k * th + 20 * th, 300 * th * (1 + k)]
    if fam == 'Beta':
        a, b = f(P[0]), f(P[1]); sc = f(P[2]) if len(P) > 2 else mp.mpf(1)
        return (lambda x: (x / sc) ** (a - 1) * (1 - x / sc) ** (b - 1) / (mp.beta(a, b) * sc)), [0, sc / 2, sc]
    if fam == 'TruncNormal':
        mu, s, lo, hi = f(P[0]), mp.sqrt(f(P[1])), f(P[2]), f(P[3])
        z = mp.quad(lambda x: mp.exp(-((x - mu) / s) ** 2 / 2), [lo, hi])
        return (lambda x: mp.exp(-((x - mu) / s) ** 2 / 2) / z), [lo, hi]
    raise KeyError(fam)


def exists_exp(fam, P, c):
    P = [lang.parse_arith(p) for p in P]
    if fam == 'DistExp': return c < P[0]
    if fam == 'Gamma': return c < 1 / P[1]
    if fam == 'Laplace': return abs(c) < 1 / P[1]
    return True


def truth(fam, P, pw):
    truth.last_err = 0
    a, b, c, e = pw.get('Id', 0), pw.get('Sin', 0), pw.get('Cos', 0), pw.get('Exp', 0)
    d = density(fam, P)
    if d[0] == 'discrete':
        return sum(sp.N(q, 50) * sp.N(sp.Integer(v) ** a * sp.sin(v) ** b * sp.cos(v) ** c * sp.exp(e * v), 50) for v, q in d[1])
    pdf, pts = d
    g = lambda x: x ** a * mp.sin(x) ** b * mp.cos(x) ** c * mp.exp(e * x) * pdf(x)
    # split fine enough for oscillation; the tail is integrated to infinity where the support is unbounded
    fine = []
    for lo, hi in zip(pts, pts[1:]):
        k = max(1, int(min(60, abs(hi - lo))))
        fine += [lo + (hi - lo) * i / k for i in range(k)]
    fine.append(pts[-1])
    if fam in ('DistExp', 'Gamma', 'Laplace', 'Normal'): fine.append(mp.inf)
    if fam in ('Laplace', 'Normal'): fine.insert(0, -mp.inf)
    val, err = mp.quad(g, fine, error=True)
    truth.last_err = err
    return sp.Float(val, 45)


GRID = {'Bernoulli': [['1/3']], 'DiscreteUniform': [['-1', '2']], 'Normal': [['0', '1'], ['1', '1'], ['-1/2', '4']], 'Uniform': [['2', '4'], ['0', '1'], ['-1', '1']],
        'Laplace': [['0', '1'], ['1', '1/3']], 'DistExp': [['2'], ['5']], 'Gamma': [['1', '1/2'], ['2', '1/5'], ['3', '1/4']], 'Beta': [['2', '3'], ['2', '2', '3']],
        'TruncNormal': [['0', '1', '-1', '2']]}


def items(tier, seed):
    triples = [(0, 1, 0), (0, 0, 1), (1, 1, 0), (0, 2, 0), (0, 1, 1), (1, 2, 3), (2, 0, 1), (0, 3, 0), (2, 1, 1), (0, 0, 2), (1, 0, 3), (1, 2, 0)]      # (1,2,0): the cf-derivative-at-0 term (D24)
    if tier != 'quick': triples += [(3, 2, 1), (0, 4, 0), (1, 3, 2), (4, 1, 0), (0, 2, 2), (2, 2, 2)]
    exps = [(0, 1), (1, 1), (0, 2), (2, 1), (1, 3), (0, 4), (1, 5), (0, -1)] + ([(3, 2), (2, 4)] if tier != 'quick' else [])
    its = []
    grid_all = {k: list(v) for k, v in GRID.items()}
    if tier != 'quick':
        more = {'Bernoulli': [['3/4'], ['1/10']], 'DiscreteUniform': [['0', '5'], ['-3', '-1']], 'Normal': [['2', '1/4'], ['-3', '9']], 'Uniform': [['-3', '5'], ['1/2', '3/2']],
                'Laplace': [['-1', '2'], ['2', '1/2']], 'DistExp': [['1/3'], ['1']], 'Gamma': [['4', '1'], ['1', '3']], 'Beta': [['3', '2'], ['1', '1'], ['2', '5', '2']],
                'TruncNormal': [['1', '2', '0', '3'], ['0', '4', '-2', '-1']]}
        for k, v in more.items(): grid_all[k] += v
    for fam, grid in grid_all.items():
        for ps in grid:
            cases = [dict(powers={k: v for k, v in zip(('Id', 'Sin', 'Cos'), t) if v}) for t in triples]
            cases += [dict(powers={k: v for k, v in (('Id', a), ('Exp', c)) if v}) for a, c in exps]
            cases += [dict(powers={'Sin': 1, 'Exp': 1}, mixed=True), dict(powers={'Id': 1, 'Cos': 2, 'Exp': 2}, mixed=True)]
            for exact in ((False, True) if fam not in ('TruncNormal', 'Beta') else (False,)):
                its.append(dict(name=f'{fam}({",".join(ps)}){"@exact" if exact else ""}', kind='moments', family=fam, params=ps, cases=cases, exact=exact, budget=300))
    its.append(dict(name='consts', kind='consts', budget=60))
    for n, src, goal, term in PROGRAMS:
        its.append(dict(name='prog_' + n, kind='prog', src=src, goal=goal, term=term, budget=120))
    for it in its: it.setdefault('src', it['name'])
    return its


# end-to-end: x accumulates `term` each iteration (fresh draws): E(x)(n) = n * E[term]; term given as (family, params, powers) factors
PROGRAMS = [
("normal_sin", "x = 0\nwhile true:\n    d = Normal(0, 1)\n    s = Sin(d)\n    x = x + s*d\nend", 'x', [('Normal', ['0', '1'], {'Id': 1, 'Sin': 1})]),
("ref_cos", "x = 0\nwhile true:\n    d = Uniform(0, 2)\n    r = d\n    c = Cos(r)\n    x = x + c**2*d\nend", 'x', [('Uniform', ['0', '2'], {'Id': 1, 'Cos': 2})]),
("exp_gamma", "x = 0\nwhile true:\n    g = Gamma(2, 1/4)\n    w = Exp(g)\n    x = x + g*w**2\nend", 'x', [('Gamma', ['2', '1/4'], {'Id': 1, 'Exp': 2})]),
("two_draws", "x = 0\nwhile true:\n    a = Normal(1, 1)\n    b = Uniform(1, 2)\n    sa = Sin(a)\n    eb = Exp(b)\n    x = x + sa*eb\nend", 'x', [('Normal', ['1', '1'], {'Sin': 1}), ('Uniform', ['1', '2'], {'Exp': 1})]),
("const_func", "x = 0\nwhile true:\n    k = Sin(2)\n    x = x + k**2\nend", 'x', 'sin(2)**2'),
("exp_nonexistent", "x = 0\nwhile true:\n    c = Gamma(1, 1/2)\n    w = Exp(c)\n    x = x + c*w**3\nend", 'x', 'REFUSE'),
("sin_exp_mixed", "x = 0\nwhile true:\n    d = Normal(0, 1)\n    s = Sin(d)\n    w = Exp(d)\n    x = x + s*w\nend", 'x', 'REFUSE'),
]


def check_item(it):
    viol, checked = [], 0
    if it['kind'] == 'moments':
        fam, ps = it['family'], it['params']
        st, out = common.run_probe('funcmoment.py', dict(cases=[dict(family=fam, params=ps, powers=c['powers'], exact=it['exact']) for c in it['cases']]), timeout=it['budget'])
        if st == 'timeout': return dict(status='skipped', why='probe budget exceeded')
        if st != 'ok' or 'probe_error' in out: return dict(status='machinery-error', why=str(out))
        for c, r in zip(it['cases'], out['cases']):
            pw = c['powers']; tag = f"powers {pw}"
            if c.get('mixed'):
                checked += 1
                if 'value' in r: viol.append(dict(goal=tag, n=None, observed=f"answered {judge.from_srepr(r['value'])}", expected='refusal: Sin/Cos cannot be mixed with Exp'))
                continue
            if 'Exp' in pw and not exists_exp(fam, ps, pw['Exp']):
                checked += 1
                if 'value' in r: viol.append(dict(goal=tag, n=None, observed=f"answered {judge.from_srepr(r['value'])}", expected='refusal: the exponential moment does not exist'))
                continue
            if 'error' in r:
                # a principled refusal (FunctionalAssignmentException, NotImplementedError of a family without cf/mgf) is allowed; anything else is a
                # crash on a moment the property says Polar computes (D33: AssertionError for every Id power of a DiscreteUniform variable)
                if r['error'] not in ('FunctionalAssignmentException', 'NotImplementedError'):
                    checked += 1
                    viol.append(dict(goal=tag, n=None, observed=f"{r['error']}: {r.get('msg', '')[:80]}", expected='the expectation (or a FunctionalAssignmentException)'))
                continue
            got = judge.from_srepr(r['value'])
            try:
                tv = truth(fam, ps, pw)
            except Exception as ex:
                continue
            checked += 1
            gv = sp.N(got, 45)
            tol = sp.Float('1e-30') if it['exact'] and fam not in ('TruncNormal',) else sp.Float('1e-17')
            if fam == 'TruncNormal': tol = sp.Float('1e-9')
            qerr = getattr(truth, 'last_err', 0)
            if qerr: tol = max(tol, sp.Float(1000 * qerr))          # never claim more than the quadrature itself guarantees
            if tol > sp.Float('1e-12'): continue                     # quadrature not accurate enough to decide: undecided, not a violation
            if abs(sp.im(gv)) > tol or abs(sp.re(gv) - tv) > tol * (1 + abs(tv)):
                viol.append(dict(goal=tag, n=None, observed=str(sp.N(got, 25)), expected=str(sp.N(tv, 25))))
        return dict(status='violation' if viol else 'ok', checked=checked, violations=viol[:4], nontrivial=checked >= 5)
    if it['kind'] == 'consts':
        consts = [dict(func=f, arg=a, k=k, exact=ex) for f in ('Sin', 'Cos', 'Exp') for a in ('2', '1/2', '-1') for k in (1, 2, 3) for ex in (False, True)]
        st, out = common.run_probe('funcmoment.py', dict(consts=consts), timeout=it['budget'])
        if st != 'ok' or 'probe_error' in out: return dict(status='machinery-error', why=str(out))
        fn = {'Sin': sp.sin, 'Cos': sp.cos, 'Exp': sp.exp}
        for c, r in zip(consts, out['consts']):
            if 'error' in r: viol.append(dict(goal=str(c), n=None, observed=r['error'], expected='a value')); continue
            got = judge.from_srepr(r['value']); tv = fn[c['func']](sp.Rational(c['arg'])) ** c['k']; checked += 1
            tol = sp.Float('1e-30') if c['exact'] else sp.Float('1e-17')
            if abs(sp.N(got - tv, 45)) > tol * (1 + abs(sp.N(tv, 20))): viol.append(dict(goal=str(c), n=None, observed=str(sp.N(got, 25)), expected=str(sp.N(tv, 25))))
        return dict(status='violation' if viol else 'ok', checked=checked, violations=viol[:4], nontrivial=True)
    # programs
    st, out = common.run_probe('analyze.py', dict(src=it['src'], goals=[it['goal']]), timeout=it['budget'])
    if st == 'timeout': return dict(status='skipped', why='probe budget exceeded')
    if st != 'ok' or 'probe_error' in out: return dict(status='machinery-error', why=str(out))
    r = out.get('goals', {}).get(it['goal'], {})
    refused = 'parse_error' in out or 'normalize_error' in out or 'error' in r
    checked = 1
    if it['term'] == 'REFUSE':
        if not refused: viol.append(dict(goal=f"E({it['goal']})", n=None, observed=str(judge.from_srepr(r['closed_form'])), expected='refusal (moment does not exist / Sin mixed with Exp)'))
        return dict(status='violation' if viol else 'ok', checked=1, violations=viol, nontrivial=True)
    if refused: return dict(status='refused', why=str(r.get('error') or out.get('normalize_error')))
    if isinstance(it['term'], str): per = sp.N(sp.sympify(it['term']), 45)
    else:
        per = sp.Float(1, 45)
        for fam, ps, pw in it['term']: per = per * truth(fam, ps, pw)
    cf = judge.from_srepr(r['closed_form'])
    for n in range(0, 4):
        got = sp.N(judge.at_n(cf, n), 45); checked += 1
        if abs(got - n * per) > sp.Float('1e-16') * (1 + abs(n * per)):
            viol.append(dict(goal=f"E({it['goal']})", n=n, observed=str(sp.N(got, 25)), expected=str(sp.N(n * per, 25)))); break
    return dict(status='violation' if viol else 'ok', checked=checked, violations=viol, nontrivial=True)


def key_of(it, v):
    return f"C13:{it['name']}:{v['goal']}"


def run(tier, seed):
    its = items(tier, seed)
    res = pool.run_items(check_item, its, budget=600)
    r = summarise('C13', its, res, tier, keyfn=key_of,
                  rule="one case per (family, parameters, exponent triple (a,b,c) or (a,Exp power), rounding/exact mode), per constant functional moment, per "
                       "(program, n<=3); non-trivial = >= 5 cases decided; distinct by item",
                  explanation="Bounded part: the real get_func_moment against 50-digit quadrature / exact sums of the defining expectation; refusals required for "
                              "non-existent exponential moments and for Sin/Cos mixed with Exp; end-to-end loops using Sin/Cos/Exp of draws, of references to draws "
                              "and of constants. Tolerances: 1e-17 relative in rounding mode (documented 20-digit rounding), 1e-30 in exact mode.")
    for v in r['violations']:
        d = v['detail']
        v['what'] = f"{v['item']['name']}: {d['goal']} n={d.get('n')}: Polar {d['observed']} expected {d['expected']}"[:300]
    return r


def replay(d):
    r = check_item(d['item']); print(r); return r['status'] != 'violation'
