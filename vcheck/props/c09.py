"""C09 bounded part: postcondition of get_moment_given_termination / transform_to_after_loop (and the printed --after_loop goals):
 the after-loop value equals E[M | loop terminated] at loop exit, computed by the independent semantics as the converged ratio
 E[M 1{stopped by N}] / P(stopped by N) (exact rationals; convergence is checked, tolerance 1e-6 relative), for raw moments, central
 moments and cumulants; a finite reported value where the reference diverges is a violation. The finite-n sequence clause is checked on
 one curated input only (it is a known finding, D7, on every loop whose guard variable is reassigned in the body)."""
import hashlib, re, time
import sympy as sp
from vcheck import common, judge, pool
from vcheck.props.c01 import summarise
from spec import lang

PROGRAMS = [
("gambling", open('/repo/tests/benchmarks/gambling.prob').read().split('#test')[0] if __import__('os').path.exists('/repo/tests/benchmarks/gambling.prob') else "", ['money', 'bet', 'number_bets']),
("geo", "stop = 0\ncnt = 0\nwhile stop == 0:\n    stop = Bernoulli(1/3)\n    cnt = cnt + 1\nend", ['cnt', 'stop']),
("two_guard", "g = 1\nh = 0\nx = 0\nwhile g == 1 && h == 0:\n    g = Bernoulli(1/2)\n    h = Bernoulli(1/4)\n    x = x + g + 2*h\nend", ['x', 'g', 'h']),
("single_if", "x = 0\nc = 0\nwhile x == 0:\n    if c == 0:\n        c = Bernoulli(1/2)\n        x = Bernoulli(1/2)\n    end\nend", ['x', 'c']),
("leq_guard", "k = 0\ns = 0\nwhile k <= 1:\n    k = k + 1 {1/2} k\n    s = s + 2\nend", ['s', 'k']),
("partial_term", "x = 0\nd = 0\ny = 0\nwhile x == 0:\n    d = Categorical(1/2, 1/4, 1/4)\n    if d == 1:\n        x = 1\n    end\n    if d == 2:\n        x = 2\n    end\n    y = y + d\nend", ['x', 'y']),
("neg_guard", "a = 0\nt = 0\nwhile !(a == 1):\n    a = Bernoulli(1/5)\n    t = t + 1 {1/2} t\nend", ['t', 'a']),
("nested_if", "f = 0\nz = 0\nwhile f == 0:\n    c = Bernoulli(1/2)\n    if c == 1:\n        f = Bernoulli(1/2)\n        z = z + 1\n    else:\n        z = z + 3\n    end\nend", ['z', 'f']),
("diverge", "stop = 0\nx = 1\nwhile stop == 0:\n    stop = Bernoulli(1/2)\n    x = 2*x\nend", ['x']),
("ineq_guard_partial", "s = Bernoulli(1/2)\nx = DiscreteUniform(0, 3)\nc = 0\nwhile x <= 1:\n    if s == 1:\n        x = DiscreteUniform(0, 3)\n    end\n    c = c + 1\nend", ['x', 'c']),
("ineq_guard_as", "x = 0\nc = 0\nwhile x < 2:\n    x = DiscreteUniform(0, 3)\n    c = c + 1\nend", ['x', 'c']),
("geq_guard", "y = 3\nt = 0\nwhile y >= 2:\n    y = Categorical(1/4, 1/4, 1/4, 1/4)\n    t = t + y\nend", ['t', 'y']),
("guard_mono", "stop = 0\nv = 2\nwhile stop == 0:\n    stop = Bernoulli(1/4)\n    v = v + stop\nend", ['v', 'stop']),
]


def items(tier, seed):
    its = []
    for n, src, vars_ in PROGRAMS:
        its.append(dict(name=n, src=src, vars=vars_, N=40 if tier == 'quick' else 80, budget=90 if tier == 'quick' else 400, order_budget=30 if tier == 'quick' else 300, finite_n=(n == 'gambling')))
    return its


def check_item(it):
    vars_ = [sp.Symbol(v) for v in it['vars']]
    monos = vars_ + [v ** 2 for v in vars_[:2]] + ([vars_[0] * vars_[1]] if len(vars_) > 1 else [])
    out = dict(goals={})
    st, o1 = common.run_probe('afterloop.py', dict(src=it['src'], monomials=[str(m) for m in monos], order=0), timeout=it['budget'])
    if st == 'timeout': return dict(status='skipped', why='probe budget exceeded')
    if st != 'ok' or 'probe_error' in o1: return dict(status='machinery-error', why=str(o1))
    if 'normalize_error' in o1: return dict(status='refused', why=str(o1['normalize_error']))
    out['goals'].update(o1['goals'])
    # central moments / cumulants after the loop (Polar's limit computation is slow on many inputs: optional, own small budget)
    st, o2 = common.run_probe('afterloop.py', dict(src=it['src'], monomials=[str(monos[0])], order=3 if it.get('finite_n') else 2), timeout=it.get('order_budget', 30))
    if st == 'ok' and 'goals' in o2:
        for k_, v_ in o2['goals'].items():
            if 'error' not in v_: out['goals'][k_].update({kk: vv for kk, vv in v_.items() if kk in ('central_after', 'cumulant_after')})
    prog = lang.parse_program(it['src']); sem = lang.Sem(prog, max_worlds=20000)
    running = sem.init_worlds()
    est = {m: [] for m in monos}; raw3 = {m: [] for m in monos}; stopmass = []
    t0 = time.time()
    acc = {m: [sp.Integer(0)] * 3 for m in monos}; ps = sp.Integer(0)
    for n in range(it['N'] + 1):
        # stopped worlds are frozen for ever: fold them into the accumulators E[M^k 1{stopped}] and drop them
        stopped = [w for w in running if not sem.holds(prog.guard, w.st)]
        running = [w for w in running if sem.holds(prog.guard, w.st)]
        ps += sum(w.p for w in stopped)
        for m in monos:
            for k in (1, 2, 3):
                acc[m][k - 1] = acc[m][k - 1] + sum(w.p * sem.atom_expect(sp.expand((m ** k).xreplace({s: sem.read(s, w.st) for s in m.free_symbols}))) for w in stopped)
        stopmass.append(ps)
        for m in monos:
            if ps == 0: est[m].append(None); raw3[m].append(None)
            else:
                rr = [a / ps for a in acc[m]]; est[m].append(rr[0]); raw3[m].append(rr)
        if n < it['N']:
            if time.time() - t0 > 40 or not running: 
                if not running:
                    for _ in range(6):      # loop has terminated on every path: the estimates are final
                        stopmass.append(ps)
                        for m in monos: est[m].append(est[m][-1]); raw3[m].append(raw3[m][-1])
                break
            running = lang.merge(sem.exec_block(prog.body, running))
    Nn = len(stopmass) - 1
    viol, checked = [], 0

    def converged(seq):
        xs = [x for x in seq if x is not None]
        if len(xs) < 8: return None
        a, b = sp.N(xs[-1], 30), sp.N(xs[-6], 30)
        if abs(a - b) <= sp.Float('1e-9') * (1 + abs(a)): return a
        return 'diverging' if abs(a) > abs(b) else None

    for m in monos:
        o = out['goals'][str(m)]
        if 'error' in o: continue           # refusal
        al = judge.from_srepr(o['after_loop'])
        lim = converged(est[m])
        if lim is None: continue
        checked += 1
        if lim == 'diverging':
            if al.is_finite and sp.N(abs(est[m][-1]), 20) > 50 * (1 + abs(sp.N(al, 20))):
                viol.append(dict(goal=f'after_loop E({m})', n=None, observed=str(al), expected=f'divergent (reference partial value {sp.N(est[m][-1], 8)} still growing)'))
            continue
        if al in (sp.oo, -sp.oo, sp.zoo) or not al.is_number or abs(sp.N(al, 30) - lim) > sp.Float('1e-6') * (1 + abs(lim)):
            viol.append(dict(goal=f'after_loop E({m})', n=None, observed=str(al), expected=f'{sp.N(lim, 12)} (converged conditional expectation at exit)'))
            continue
        # central moments / cumulants of order 2, 3 from converged conditional raw moments
        rr = [converged([r[k] if r else None for r in raw3[m]]) for k in range(3)]
        if all(r not in (None, 'diverging') for r in rr):
            m1, m2, m3 = rr
            c2, c3 = m2 - m1 ** 2, m3 - 3 * m1 * m2 + 2 * m1 ** 3
            for tag, vals in (('central_after', {2: c2, 3: c3}), ('cumulant_after', {2: c2, 3: c3})):
                for k, tv in vals.items():
                    if tag in o and str(k) in o[tag]:
                        got = judge.from_srepr(o[tag][str(k)]); checked += 1
                        if not got.is_number or abs(sp.N(got, 30) - tv) > sp.Float('1e-6') * (1 + abs(tv)):
                            viol.append(dict(goal=f'{tag} order {k} of {m}', n=None, observed=str(got), expected=str(sp.N(tv, 12))))
        # finite-n clause (one curated input)
        if it.get('finite_n'):
            seq = judge.from_srepr(o['given_termination'])
            for n in range(0, 6):
                if est[m][n] is None: continue
                got = judge.at_n(seq, n); checked += 1
                bad = got.has(sp.nan) or got.has(sp.zoo) or got.free_symbols or not judge.is_zero(got - est[m][n])[0]
                if bad:
                    viol.append(dict(goal=f'given-termination sequence of {m}', n=n, observed=str(got), expected=str(est[m][n]), finite_n=True)); break
    # printed CLI value for the first monomial
    st, so, se = common.run_cli(it['src'], ['--after_loop', '--goals', f'E({monos[0]})'], timeout=it['budget'])
    if st == 'ok':
        for line in so.splitlines():
            mm = re.match(r'^E\((.*?)\) = (.*)$', line.strip())
            if mm:
                lim = converged(est[monos[0]])
                if lim not in (None, 'diverging'):
                    sp_, g_ = common.parse_printed(mm.group(2)); checked += 1
                    if not g_.is_number or abs(sp.N(g_, 30) - lim) > sp.Float('1e-6') * (1 + abs(lim)):
                        viol.append(dict(goal=f'printed after_loop E({monos[0]})', n=None, observed=mm.group(2), expected=str(sp.N(lim, 12))))
    return dict(status='violation' if viol else 'ok', checked=checked, violations=viol, nontrivial=checked >= 3, iterations=Nn,
                stopped_mass=str(sp.N(stopmass[-1], 8)))


def key_of(it, v):
    h = hashlib.sha1(it['src'].encode()).hexdigest()[:10]
    return f"C09:{h}:{it['name']}:{v['goal']}"


def run(tier, seed):
    its = items(tier, seed)
    res = pool.run_items(check_item, its, budget=300 if tier == 'quick' else 900)
    r = summarise('C09', its, res, tier, keyfn=key_of,
                  rule="one case per (guarded program, monomial, goal kind) for the after-loop value and per (program, monomial, n<=5) for the finite-n sequence on "
                       "the curated gambling input; programs: a.s. terminating, positive-probability terminating, two-variable / <= / negated guards, single "
                       "top-level if, diverging expectation; non-trivial = >= 3 cases decided; distinct by program text",
                  explanation="Bounded part: the real get_moment_given_termination / transform_to_after_loop (and the CLI print path) against the conditional "
                              "expectation at loop exit obtained from the independent semantics by exact enumeration of N iterations (N=40/80) with a convergence "
                              "test (1e-9 between N and N-5) and tolerance 1e-6. Bounded in programs; never counted as proved.")
    for v in r['violations']:
        d = v['detail']
        v['what'] = f"{v['item']['name']}: {d['goal']} n={d.get('n')}: Polar {d['observed']} expected {d['expected']}"[:300]
    return r


def replay(d):
    r = check_item(d['item']); print(r); return r['status'] != 'violation'
