"""C11 bounded / symbolic-run part.
 (a) comb(n,k) == C(n,k) for all 0 <= k <= n+1, n <= N (exhaustive in the bound);
 (b) raw_moments_to_centrals / raw_moments_to_cumulants called with SYMBOLS m1..mK: the results are polynomial identities compared with
     the judge's formulas derived from the definitions (E[(X-mu)^k] expanded; k! [t^k] log E[e^{tX}]) -- complete over all real moment
     values for each order <= K; and against an explicit s-point distribution with symbolic atoms (definition-level oracle);
 (c) GoalParser.parse maps goal texts to the right kind/order/monomial, malformed texts are refused;
 (d) end-to-end through the real CLI: printed c_k, k_k, tail bounds against the exact law from the reference semantics at every n <= N;
 (e) Gram-Charlier density integrates to 1 and reproduces the first k raw moments; Cornish-Fisher equals the standard expansion (order 4)."""
import hashlib, itertools, math, re
import sympy as sp
from vcheck import common, judge, pool
from vcheck.props.c01 import summarise
from spec import lang

m = lambda i: sp.Symbol(f'm{i}')


def central_from_def(k):
    # E[(X - m1)^k] = sum_j C(k,j) E[X^j] (-m1)^(k-j)
    return sp.expand(sum(math.comb(k, j) * (m(j) if j else 1) * (-m(1)) ** (k - j) for j in range(k + 1)))


def cumulants_from_def(K):
    # kappa_k = k! [t^k] log(1 + sum_{j>=1} m_j t^j / j!)
    t = sp.Symbol('t')
    u = sum(m(j) * t ** j / sp.factorial(j) for j in range(1, K + 1))
    ser = sum((-1) ** (r + 1) * u ** r / r for r in range(1, K + 1))
    ser = sp.expand(ser)
    return {k: sp.expand(sp.factorial(k) * ser.coeff(t, k)) for k in range(1, K + 1)}


def moments_from_cumulants(kap):
    """raw moments from cumulants: m_n = sum_{k=1..n} C(n-1,k-1) kappa_k m_{n-k}"""
    K = len(kap); ms = {0: sp.Integer(1)}
    for n in range(1, K + 1):
        ms[n] = sp.expand(sum(math.comb(n - 1, k - 1) * kap[k - 1] * ms[n - k] for k in range(1, n + 1)))
    return ms


def normal_expect(poly, x, mu, sigma):
    """E[poly(X)] for X ~ N(mu, sigma^2), exact"""
    z = sp.Symbol('z_')
    p = sp.Poly(sp.expand(poly.xreplace({x: mu + sigma * z})), z)
    tot = 0
    for (k,), c in p.terms():
        tot += c * (0 if k % 2 else sp.factorial2(k - 1) if k > 0 else 1)
    return sp.simplify(tot)


PROGRAMS = [
("skewed", "x = 0\nwhile true:\n    x = x + 1 {1/4} x + 3 {1/4} x\nend", 'x', ['2', '5/2']),
("rw", "x = 0\nwhile true:\n    x = x + 1 {1/2} x - 1\nend", 'x**2', ['1', '3']),
("binom", "x = 0\nc = 0\nwhile true:\n    c = Bernoulli(1/3)\n    x = x + c\nend", 'x', ['1', '2']),
("geo_guard", "stop = 0\ncnt = 0\nwhile stop == 0:\n    stop = Bernoulli(1/3)\n    cnt = cnt + 1\nend", 'cnt', ['2']),
("prod", "x = 1\ny = 0\nwhile true:\n    y = y + 1 {1/2} y\n    x = 2*x {1/3} x\nend", 'x*y', ['3']),
]

GOAL_TEXTS = {
    'E(x)': ('MOMENT', None, 'x'), 'E(x**2*y)': ('MOMENT', None, 'x**2*y'), 'x': ('MOMENT', None, 'x'), 'x*y': ('MOMENT', None, 'x*y'),
    'c2(x)': ('CENTRAL', 2, 'x'), 'c13(x*y)': ('CENTRAL', 13, 'x*y'), 'k3(x)': ('CUMULANT', 3, 'x'), 'k10( y**2 )': ('CUMULANT', 10, 'y**2'),
    'P(x >= 3) <= ?': ('TAIL_BOUND_UPPER', None, ('x', '3')), 'P(x*y>=1/2)<=?': ('TAIL_BOUND_UPPER', None, ('x*y', '1/2')),
    'P(x > 2) >= ?': ('TAIL_BOUND_LOWER', None, ('x', '2')), 'P(x**2 > 10) >= ?': ('TAIL_BOUND_LOWER', None, ('x**2', '10')),
    'E(': None, 'c(x)': None, 'kx(x)': None, 'P(x >= 3)': None, 'Q(x)': None, 'c2(x': None, 'E x)': None,
}


def items(tier, seed):
    K = 6 if tier == 'quick' else 9
    its = [dict(name='comb', kind='comb', N=80 if tier == 'quick' else 200),
           dict(name='convert', kind='convert', K=K),
           dict(name='goal_parser', kind='goals'),
           dict(name='expansions', kind='expansions')]
    for n, src, mono, thr in PROGRAMS:
        its.append(dict(name=f'cli_{n}', kind='cli', src=src, mono=mono, thresholds=thr, order=4 if tier == 'quick' else 6,
                        nmax=5 if tier == 'quick' else 8))
    # tail bounds after termination (--after_loop): the bounds are limits of the finite-n bounds and must bound the law at loop exit (D32)
    its.append(dict(name='cli_after_loop_tail', kind='after_tail', src="stop = 0\ncnt = 0\nwhile stop == 0:\n    stop = Bernoulli(1/3)\n    cnt = cnt + 1\nend",
                    mono='cnt', thresholds=['1', '2', '5'] if tier == 'quick' else ['1', '2', '3', '5', '8']))
    for it in its: it.setdefault('src', it['name'])
    return its


def check_after_tail(it):
    viol, checked = [], 0
    q = sp.Rational(2, 3)                     # cnt is geometric on 1, 2, ...: P(cnt >= a) = (2/3)**(a-1)
    for a in it['thresholds']:
        av = int(a)
        st, so, se = common.run_cli(it['src'], ['--goals', f'P({it["mono"]} >= {a}) <= ?', f'P({it["mono"]} > {a}) >= ?', '--tail_bound_moments', '3', '--after_loop'], timeout=200)
        checked += 1
        if st == 'timeout': continue
        if st != 'ok':
            viol.append(dict(goal=f'after-loop tail bounds for threshold {a}', n=None, observed='error: ' + (se.strip().splitlines() or ['?'])[-1][:160], expected='bounds on the law at loop exit')); continue
        ups, low = [], None
        for line in so.splitlines():
            mm = re.match(r'^\s*\((\d+)\) (.*)$', line)
            if mm: ups.append(mm.group(2))
            mm = re.match(r'^P\((.*) > (.*)\) >= (.*)$', line.strip())
            if mm and '|' not in mm.group(1): low = mm.group(3)
        p_ge = q ** (av - 1); p_gt = q ** av
        if not ups: viol.append(dict(goal=f'after-loop upper bounds for threshold {a}', n=None, observed='none printed', expected='at least one bound'))
        for b in ups:
            bv = sp.sympify(b); checked += 1
            if not (bv.is_number and bv >= p_ge): viol.append(dict(goal=f'after-loop P({it["mono"]} >= {a}) <= {b}', n=None, observed=str(b), expected=f'>= {p_ge}'))
        if low is not None and av <= 1:          # the lower bound is stated under the printed assumption 'cnt - a is non-negative' (cnt >= 1 at exit)
            lv = sp.sympify(low); checked += 1
            if not (lv.is_number and lv <= p_gt): viol.append(dict(goal=f'after-loop P({it["mono"]} > {a}) >= {low}', n=None, observed=str(low), expected=f'<= {p_gt}'))
    return dict(status='violation' if viol else 'ok', checked=checked, violations=viol, nontrivial=checked >= 4)


def check_item(it):
    viol, checked = [], 0
    kind = it['kind']
    if kind == 'after_tail': return check_after_tail(it)
    if kind in ('comb', 'convert', 'goals', 'expansions'):
        req = {}
        if kind == 'comb': req['comb'] = it['N']
        if kind == 'convert': req['convert'] = it['K']
        if kind == 'goals': req['goals'] = list(GOAL_TEXTS)
        cums = [['1', '2', '1/2'], ['0', '1', '1/3', '1/5'], ['2', '3', '-1', '2', '1/2'], ['1/2', '5/4', '1/4', '-1/8', '1/16', '1/3']]
        if kind == 'expansions': req['gram_charlier'] = cums; req['cornish_fisher'] = [['k1', 'k2', 'k3'], ['k1', 'k2', 'k3', 'k4'], ['k1', 'k2', 'k3', 'k4', 'k5']]
        st, out = common.run_probe('stats.py', req, timeout=300)
        if st == 'timeout': return dict(status='skipped', why='probe budget exceeded')
        if st != 'ok' or 'probe_error' in out: return dict(status='machinery-error', why=str(out))
        if kind == 'comb':
            for n, row in enumerate(out['comb']):
                for k, v in enumerate(row):
                    checked += 1
                    exp_ = math.comb(n, k)
                    if str(exp_) != v:
                        viol.append(dict(goal=f'comb({n},{k})', n=n, observed=v, expected=str(exp_)))
                        if len(viol) > 3: break
                if len(viol) > 3: break
        if kind == 'convert':
            K = it['K']
            kdef = cumulants_from_def(K)
            # definition-level oracle on a 3-point law with symbolic atoms and weights
            a = sp.symbols('a1:4'); w = sp.symbols('w1:3'); ws = list(w) + [1 - sum(w)]
            raw = {j: sum(wi * ai ** j for wi, ai in zip(ws, a)) for j in range(1, K + 1)}
            sub = {m(j): raw[j] for j in range(1, K + 1)}
            for k in range(1, K + 1):
                got = judge.from_srepr(out['centrals'][str(k)]); checked += 1
                ok, _ = judge.is_zero(got - central_from_def(k))
                if not ok: viol.append(dict(goal=f'central c{k}', n=k, observed=str(got), expected=str(central_from_def(k))))
                if k <= 5:
                    truth = sp.expand(sum(wi * (ai - raw[1]) ** k for wi, ai in zip(ws, a))); checked += 1
                    if sp.expand(got.xreplace(sub) - truth) != 0:
                        viol.append(dict(goal=f'central c{k} vs 3-point law', n=k, observed=str(got), expected='E[(X-mu)^k] of the 3-point law'))
                got = judge.from_srepr(out['cumulants'][str(k)]); checked += 1
                ok, _ = judge.is_zero(got - kdef[k])
                if not ok: viol.append(dict(goal=f'cumulant k{k}', n=k, observed=str(got), expected=str(kdef[k])))
        if kind == 'goals':
            for g, want in GOAL_TEXTS.items():
                r = out['goals'][g]; checked += 1
                if want is None:
                    if 'error' not in r: viol.append(dict(goal=f'goal {g!r}', n=None, observed=str(r), expected='ParseException'))
                    elif r['error'] != 'ParseException': viol.append(dict(goal=f'goal {g!r}', n=None, observed=r['error'], expected='ParseException'))
                    continue
                if 'error' in r: viol.append(dict(goal=f'goal {g!r}', n=None, observed=r['error'], expected=str(want))); continue
                kindw, order, mono = want
                data = r['data']
                ok = r['kind'] == kindw
                if order is not None: ok = ok and data[0] == order and judge.from_srepr(data[1]) == lang.parse_arith(mono)
                elif isinstance(mono, tuple): ok = ok and all(judge.from_srepr(d) == lang.parse_arith(x) for d, x in zip(data, mono))
                else: ok = ok and judge.from_srepr(data[0]) == lang.parse_arith(mono)
                if not ok: viol.append(dict(goal=f'goal {g!r}', n=None, observed=str(r), expected=str(want)))
        if kind == 'expansions':
            x = sp.Symbol('x')
            for cum, txt in zip(cums, out['gram_charlier']):
                if isinstance(txt, dict): viol.append(dict(goal=f'gram_charlier {cum}', n=None, observed=str(txt), expected='a density')); continue
                f = judge.from_srepr(txt)
                kap = [sp.Rational(c) for c in cum]
                mu, s2 = kap[0], kap[1]; sigma = sp.sqrt(s2)
                phi = sp.exp(-(x - mu) ** 2 / (2 * s2)) / sp.sqrt(2 * sp.pi * s2)
                P = sp.simplify(f / phi)
                if P.free_symbols - {x} or not P.is_polynomial(x):
                    viol.append(dict(goal=f'gram_charlier {cum}', n=None, observed=str(P), expected='polynomial times normal density')); continue
                ms = moments_from_cumulants(kap)
                for j in range(0, len(cum) + 1):
                    got = normal_expect(sp.expand(P * x ** j), x, mu, sigma); checked += 1
                    ok, _ = judge.is_zero(sp.simplify(got - ms[j]))
                    if not ok: viol.append(dict(goal=f'gram_charlier {cum} moment {j}', n=j, observed=str(got), expected=str(ms[j]))); break
            # Cornish-Fisher, standard expansion through order 4 (Abramowitz-Stegun 26.2.49 / Hill & Davis)
            p = sp.Symbol('p'); z = sp.sqrt(2) * sp.erfinv(2 * p - 1)
            k1, k2, k3, k4, k5 = sp.symbols('k1 k2 k3 k4 k5'); sg = sp.sqrt(k2)
            g1, g2, g3 = k3 / sg ** 3, k4 / sg ** 4, k5 / sg ** 5
            w3 = z + g1 * (z ** 2 - 1) / 6
            w4 = w3 + g2 * (z ** 3 - 3 * z) / 24 - g1 ** 2 * (2 * z ** 3 - 5 * z) / 36
            w5 = w4 + g3 * (z ** 4 - 6 * z ** 2 + 3) / 120 - g1 * g2 * (z ** 4 - 5 * z ** 2 + 2) / 24 + g1 ** 3 * (12 * z ** 4 - 53 * z ** 2 + 17) / 324
            for w, txt in zip((w3, w4, w5), out['cornish_fisher']):
                if isinstance(txt, dict): viol.append(dict(goal='cornish_fisher', n=None, observed=str(txt), expected='an expansion')); continue
                got = judge.from_srepr(txt); checked += 1
                d = sp.expand((got - (k1 + sg * w)).xreplace({sp.erfinv(2 * p - 1): sp.Symbol('q')}))
                ok, _ = judge.is_zero(sp.simplify(d))
                if not ok: viol.append(dict(goal=f'cornish_fisher order {len(w.free_symbols)}', n=None, observed=str(got)[:150], expected=str(k1 + sg * w)[:150]))
        return dict(status='violation' if viol else 'ok', checked=checked, violations=viol, nontrivial=checked >= 5)

    # kind == 'cli': the real command line
    mono = lang.parse_arith(it['mono']); K = it['order']
    goals = [f'c{k}({it["mono"]})' for k in range(1, K + 1)] + [f'k{k}({it["mono"]})' for k in range(1, K + 1)]
    st, so, se = common.run_cli(it['src'], ['--goals'] + goals, timeout=200)
    if st == 'timeout': return dict(status='skipped', why='cli budget exceeded')
    if st != 'ok': return dict(status='refused', why=se[-300:])
    # exact law of the monomial at each n (discrete programs): value -> prob
    prog = lang.parse_program(it['src']); sem = lang.Sem(prog)
    ws = sem.init_worlds(); laws = []
    for n in range(it['nmax'] + 1):
        law = {}
        for w in ws:
            v = sp.expand(mono.xreplace({s: sem.read(s, w.st) for s in mono.free_symbols}))
            law[v] = law.get(v, 0) + w.p
        laws.append(law); ws = sem.iterate(ws)

    def raw(law, j): return sum(p * v ** j for v, p in law.items())

    def central(law, k):
        mu = raw(law, 1); return sp.expand(sum(p * (v - mu) ** k for v, p in law.items()))
    kdef = cumulants_from_def(K)

    def cumulant(law, k): return sp.expand(kdef[k].xreplace({m(j): raw(law, j) for j in range(1, K + 1)}))
    printed = {}
    for line in so.splitlines():
        mm = re.match(r'^([ck]\d+)\((.*?)\) = (.*)$', line.strip())
        if mm and '|' not in mm.group(2): printed[mm.group(1)] = mm.group(3)
    for k in range(1, K + 1):
        for tag, fn in (('c', central), ('k', cumulant)):
            key = f'{tag}{k}'
            if key not in printed: viol.append(dict(goal=key, n=None, observed='not printed', expected='a closed form')); continue
            sp_, gen_ = common.parse_printed(printed[key])
            for n in range(it['nmax'] + 1):
                got = common.printed_at(sp_, gen_, n); checked += 1
                ok, _ = judge.is_zero(got - fn(laws[n], k))
                if not ok: viol.append(dict(goal=f'{key}({it["mono"]})', n=n, observed=str(got), expected=str(fn(laws[n], k)))); break
    # tail bounds
    for a in it['thresholds']:
        av = sp.Rational(a)
        st, so, se = common.run_cli(it['src'], ['--goals', f'P({it["mono"]} >= {a}) <= ?', f'P({it["mono"]} > {a}) >= ?', '--tail_bound_moments', '3'], timeout=200)
        if st != 'ok': continue
        ups, low = [], None
        for line in so.splitlines():
            mm = re.match(r'^\s*\((\d+)\) (.*)$', line)
            if mm: ups.append(mm.group(2))
            mm = re.match(r'^P\((.*) > (.*)\) >= (.*)$', line.strip())
            if mm and '|' not in mm.group(1): low = mm.group(3)
        for n in range(it['nmax'] + 1):
            law = laws[n]
            nonneg = all(v >= 0 for v in law)
            p_ge = sum(p for v, p in law.items() if v >= av); p_gt = sum(p for v, p in law.items() if v > av)
            if nonneg:
                for b in ups:
                    s_, g_ = common.parse_printed(b); bv = common.printed_at(s_, g_, n); checked += 1
                    if bv.is_number and bv.is_real and bv < p_ge:
                        viol.append(dict(goal=f'upper tail bound a={a}', n=n, observed=f'bound {bv}', expected=f'>= P = {p_ge}')); break
            if low is not None and all(v - av >= 0 for v in law):
                s_, g_ = common.parse_printed(low); bv = common.printed_at(s_, g_, n); checked += 1
                if bv.is_number and bv.is_real and bv > p_gt:
                    viol.append(dict(goal=f'lower tail bound a={a}', n=n, observed=f'bound {bv}', expected=f'<= P = {p_gt}'))
    return dict(status='violation' if viol else 'ok', checked=checked, violations=viol, nontrivial=checked >= 10)


def key_of(it, v):
    return f"C11:{it['name']}:{v['goal']}"


def run(tier, seed):
    its = items(tier, seed)
    res = pool.run_items(check_item, its, budget=400)
    r = summarise('C11', its, res, tier, keyfn=key_of,
                  rule="cases: comb(n,k) exhaustively for n <= 80/200; converter outputs per order <= 6/9 as polynomial identities in symbolic raw moments "
                       "(complete over all moment values per order) and against a symbolic 3-point law; goal texts; printed c_k/k_k/tail bounds of the real CLI "
                       "per n <= 5/8 on discrete programs; expansions on 4 cumulant vectors / symbolic cumulants; non-trivial = >= 5 cases in the item",
                  explanation="Bounded / symbolic-run part: see module docstring of vcheck/props/c11.py. The conversion formulas are decided as polynomial "
                              "identities for every order up to the bound (all real values); everything else is bounded in orders, programs, n.")
    for v in r['violations']:
        d = v['detail']
        v['what'] = f"{v['item']['name']}: {d['goal']} n={d.get('n')}: Polar {d['observed']} expected {d['expected']}"[:300]
    return r


def replay(d):
    r = check_item(d['item']); print(r); return r['status'] != 'violation'
