"""C14 bounded part: postcondition of UnsolvInvSynthesizer.synth_inv and SolvLoopSynthesizer.synth_loop on loops with non-linear dependency
cycles: every returned pair (Q, f) satisfies E[Q(state after n iterations)] == f(n) for n <= N with symbolic initial values (and symbolic template
parameters), exactly, against the independent semantics; in every synthesized loop the value of each retained variable and of the fresh combination
variable equals the expected value of that variable / of Q in the original loop at n <= N."""
import glob, hashlib, os
import sympy as sp
from vcheck import common, judge, pool
from vcheck.props.c01 import summarise
from spec import lang, flat

B = '/repo/tests/unsolvable_benchmarks/'
ITEMS = [
    ('deg-5', 'deg-5.prob', ['x', 'y'], 1), ('fibonaccitrace', 'fibonaccitrace.prob', ['x', 'y', 'z'], 3), ('genfibonaccitrace', 'genfibonaccitrace.prob', ['x', 'y', 'z'], 3),
    ('markov-random', 'markov-triples-random.prob', ['a', 'b', 'c'], 3), ('markov-toggle', 'markov-triples-toggle.prob', ['a', 'b', 'c'], 3),
    ('nagata', 'nagata.prob', None, 2), ('non-lin-markov-1', 'non-lin-markov-1.prob', ['x', 'y'], 1), ('squares', 'squares.prob', ['x', 'y'], 1),
    ('solvable-2dwalk', 'solvable-2dwalk.prob', [], 1),
]
OWN = [
    ('own_sq_swap', "while true:\n    x, y = x + y**2, y - y**2 + 1\nend", ['x', 'y'], 1),
    ('own_prob_cycle', "while true:\n    c = Bernoulli(1/2)\n    if c == 1:\n        x, y = x + x*y, y - x*y\n    else:\n        x, y = x - 2*x*y, y + 2*x*y\n    end\nend", ['x', 'y'], 1),
    ('own_scaled', "z = 1\nwhile true:\n    z = -z\n    x = 3*x + y**2 + z\n    y = 3*y - y**2\nend", ['x', 'y'], 1),
    # homogeneous coefficient 1 with an effective part that depends on n (a probabilistic counter): the particular solution is a genuine sum over n
    ('own_k1_counter', "z = 0\nwhile true:\n    z = z + 1 {1/2} z\n    x = x + y**2 + z\n    y = y - y**2 + 2*z\nend", ['x', 'y'], 1),
    # random initial values: E(x0**2) != E(x0)**2, E(x0*y0) != E(x0)*E(y0) -- the initial value of a candidate monomial must be taken as a whole
    ('own_random_init', "x = DiscreteUniform(0, 2)\ny = 1\nwhile true:\n    z = Bernoulli(1/2)\n    if z == 0:\n        x, y = x + x*y, (1/3)*x + (2/3)*y + (x*y)\n    else:\n        x, y = x + y + (2/3)*x*y, 2*y + (2/3)*(x*y)\n    end\nend", ['x', 'y'], 2),
    ('own_k1_toggle', "t = 0\nwhile true:\n    t = 1 - t\n    x = x + y**2 + t\n    y = y - y**2 + 3*t\nend", ['x', 'y'], 1),
]


def items(tier, seed):
    its = []
    for name, f, cands, deg in ITEMS:
        path = common.REPO + '/tests/unsolvable_benchmarks/' + f
        if not os.path.exists(path): continue
        src = open(path).read().split('#test')[0]
        its.append(dict(name=name, src=src, cands=cands, deg=deg))
    for name, src, cands, deg in OWN: its.append(dict(name=name, src=src, cands=cands, deg=deg))
    for it in its:
        it['nmax'] = 4 if tier == 'quick' else 6; it['budget'] = 200 if tier == 'quick' else 600
        if it['name'] == 'deg-5': it['nmax'] = 2            # degree-5 updates: value sizes grow like 5**n
    return its


def check_item(it):
    src = it['src']
    try:
        prog = lang.parse_program(src)
    except (lang.Unsupported, lang.SpecParseError) as ex:
        return dict(status='skipped', why=f'oracle: {ex}')
    sem0 = lang.Sem(prog)
    cands = it['cands']
    if cands is None: cands = sorted(sem0.vars)[:3]
    st, out = common.run_probe('synth.py', dict(src=src, candidates=cands, deg=it['deg'], ks=[None, 1], loop=True), timeout=it['budget'])
    if st == 'timeout': return dict(status='skipped', why='probe budget exceeded')
    if st != 'ok' or 'probe_error' in out: return dict(status='machinery-error', why=str(out)[-800:])
    viol, checked = [], 0
    # exact distribution of the original loop
    worlds = []
    sem = lang.Sem(prog, max_worlds=4000); ws = sem.init_worlds()
    try:
        for n in range(it['nmax'] + 1):
            worlds.append(ws)
            if n < it['nmax']: ws = sem.iterate(ws)
    except lang.Unsupported as ex:
        if len(worlds) < 3: return dict(status='skipped', why=f'oracle: {ex}')
    N = len(worlds) - 1

    def expect(q, n): return sem.expect(q, worlds[n])
    n_sym = judge.N_INT
    pairs = []
    for k, sols in out['inv'].items():
        if sols is None or isinstance(sols, dict): continue
        for q, f in sols: pairs.append((f'synth_inv k={k}', judge.from_srepr(q), judge.from_srepr(f)))
    loop = out.get('loop') or {}
    if 'invariants' in loop:
        for q, f in loop['invariants']: pairs.append(('synth_loop invariant', judge.from_srepr(q), judge.from_srepr(f)))
    for label, q, f in pairs:
        for n in range(N + 1):
            want = expect(q, n); got = judge.at_n(f, n); checked += 1
            ok, _ = judge.is_zero(sp.simplify(got - want))
            if not ok:
                viol.append(dict(goal=f'{label}: E({q}) = {f}', n=n, observed=str(sp.simplify(got))[:120], expected=str(sp.expand(want))[:120])); break
    # synthesized solvable loops
    if 'programs' in loop:
        for idx, pj in enumerate(loop['programs']):
            try:
                fs = flat.FlatSem(pj); fw = fs.init_worlds()
            except lang.Unsupported:
                continue
            invq = judge.from_srepr(loop['invariants'][idx][0]) if idx < len(loop.get('invariants', [])) else None
            for n in range(N + 1):
                if len(fw) != 1: break
                st_ = fw[0].st
                for v, val in st_.items():
                    name = v.name
                    if name in sem0.vars and name in out['effective']:
                        want = expect(sp.Symbol(name), n); checked += 1
                        ok, _ = judge.is_zero(sp.simplify(val - want))
                        if not ok: viol.append(dict(goal=f'synthesized loop {idx}: variable {name}', n=n, observed=str(val)[:100], expected=str(want)[:100])); break
                    if name.startswith('_s') and invq is not None:
                        want = expect(invq, n); checked += 1
                        ok, _ = judge.is_zero(sp.simplify(val - want))
                        if not ok: viol.append(dict(goal=f'synthesized loop {idx}: combination variable {name} for {invq}', n=n, observed=str(val)[:100], expected=str(want)[:100])); break
                if viol: break
                try: fw = fs.iterate(fw)
                except lang.Unsupported: break
    return dict(status='violation' if viol else 'ok', checked=checked, violations=viol[:4], nontrivial=len(pairs) >= 1, pairs=len(pairs))


def key_of(it, v):
    h = hashlib.sha1(it['src'].encode()).hexdigest()[:10]
    return f"C14:{h}:{it['name']}:{v['goal']}"[:300]


def run(tier, seed):
    its = items(tier, seed)
    res = pool.run_items(check_item, its, budget=900)
    r = summarise('C14', its, res, tier, keyfn=key_of,
                  rule="one case per (loop, returned pair (Q, f), n <= N) and per (synthesized loop, variable, n <= N); loops: the 9 shipped unsolvable benchmarks and 3 "
                       "own loops with non-linear dependency cycles (deterministic, probabilistic branches, alternating sign), candidate degree as in the tests; "
                       "non-trivial = at least one pair returned; distinct by loop text",
                  explanation="Bounded part: the real synthesizers run in the probe; every returned (Q, f) is compared exactly with E[Q(state_n)] computed by the independent "
                              "semantics with symbolic initial values for n <= 4 (quick) / 6 (thorough); synthesized loops are executed by the flat reference semantics and "
                              "compared variable by variable.")
    for v in r['violations']:
        d = v['detail']
        v['what'] = f"{v['item']['name']}: {d['goal']} n={d.get('n')}: Polar {d['observed']} expected {d['expected']}"[:300]
    return r


def replay(d):
    r = check_item(d['item']); print(r); return r['status'] != 'violation'
