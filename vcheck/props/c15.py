"""C15 bounded part (real CLI on generated BIF texts):
 (a) table / per-entry / default+entry notations of the same CPTs generate loops with the same one-iteration joint law, equal to the network's
     joint law enumerated by the judge (values numbered by domain position);
 (b) acceptance: a row whose sum deviates from 1 by >= tolerance (0.001), a missing row, a wrong table length, unknown parents/values are rejected;
     deviations below the tolerance are accepted;
 (c) --exact_inference prints E(X^k | evidence), --sample_time_until prints 1 / P(evidence), both by enumeration of the joint law."""
import hashlib, itertools, random, re
from fractions import Fraction
import sympy as sp
from vcheck import common, judge, pool
from vcheck.props.c01 import summarise
from spec import lang


def fmt(p):
    f = Fraction(p)
    s = f'{float(f):.6f}'.rstrip('0')
    return s + '0' if s.endswith('.') else s


def gen_network(rnd, k, names=None, near_det=False):
    """returns dict(vars=[(name, domain, parents, cpt {parent value tuple: [Fraction]})]) in topological order"""
    names = names or ['A', 'B', 'C', 'D'][:k]
    vs = []
    for i, nm in enumerate(names):
        dom = rnd.choice([['yes', 'no'], ['low', 'mid', 'high'], ['t', 'f'], ['v0', 'v1', 'v2']])
        parents = [j for j in range(i) if rnd.random() < 0.6][:2]
        cpt = {}
        for comb in itertools.product(*[vs[j][1] for j in parents]):
            cuts = sorted(rnd.sample(range(1, 20), len(dom) - 1))
            ps = [Fraction(b - a, 20) for a, b in zip([0] + cuts, cuts + [20])]
            if near_det and rnd.random() < 0.35:
                # an almost deterministic row: one entry within the acceptance tolerance of 1, the rest of the mass must not be lost
                eps = Fraction(1, 2000); k_ = rnd.randrange(len(dom)); j_ = (k_ + 1) % len(dom)
                ps = [Fraction(0)] * len(dom); ps[k_] = 1 - eps; ps[j_] = eps
            cpt[comb] = ps
        vs.append((nm, dom, parents, cpt))
    return vs


def bif_text(vs, notation='entries', perturb=None, order=None):
    out = ['network test {', '}']
    for nm, dom, parents, cpt in vs:
        out.append(f'variable {nm} {{\n  type discrete [ {len(dom)} ] {{ {", ".join(dom)} }};\n}}')
    blocks = []
    for idx, (nm, dom, parents, cpt) in enumerate(vs):
        head = nm + (' | ' + ', '.join(vs[j][0] for j in parents) if parents else '')
        lines = []
        combs = list(itertools.product(*[vs[j][1] for j in parents]))
        rows = {c: list(cpt[c]) for c in combs}
        if perturb and perturb[0] == idx:
            c0 = combs[0]; rows[c0] = list(rows[c0]); rows[c0][0] = rows[c0][0] + perturb[1]
        if notation == 'table' or not parents:
            flat = [rows[c][i] for i in range(len(dom)) for c in combs]        # own value slowest, parents in product order
            lines.append('  table ' + ', '.join(fmt(p) for p in flat) + ';')
        elif notation == 'entries':
            for c in combs: lines.append(f'  ({", ".join(c)}) ' + ', '.join(fmt(p) for p in rows[c]) + ';')
        elif notation == 'default':
            lines.append('  default ' + ', '.join(fmt(p) for p in rows[combs[-1]]) + ';')
            for c in combs[:-1]: lines.append(f'  ({", ".join(c)}) ' + ', '.join(fmt(p) for p in rows[c]) + ';')
        blocks.append(f'probability ( {head} ) {{\n' + '\n'.join(lines) + '\n}')
    if order == 'reversed': blocks.reverse()
    return '\n'.join(out + blocks) + '\n'


def joint(vs):
    """{tuple of value indices: prob}"""
    law = {(): Fraction(1)}
    for nm, dom, parents, cpt in vs:
        new = {}
        for st, p in law.items():
            comb = tuple(vs[j][1][st[j]] for j in parents)
            for i, q in enumerate(cpt[comb]):
                if q: new[st + (i,)] = new.get(st + (i,), 0) + p * q
        law = new
    return law


def polar_name(nm): return re.sub('[^A-Za-z0-9_]+', '', nm.lower()) or '_'


def items(tier, seed):
    rnd = random.Random(9000 + seed)
    its = []
    nnet = 5 if tier == 'quick' else 120
    for i in range(nnet):
        k = rnd.choice([2, 3, 3, 4] if tier != 'quick' else [2, 3, 3])
        names = rnd.choice([None, ['Rain-1', 'Wet_Grass', 'X2', 'smoke'][:k], ['tub-er', 'tuber', 'out', 'Out'][:k], ['Smoke', 'smoke', 'S-moke'][:k]])
        if i == 0: names = ['tub-er', 'tuber', 'out'][:k]        # names colliding after sanitising
        vs = gen_network(rnd, k, names, near_det=(i % 3 == 1))
        its.append(dict(name=f'net{i}', kind='net', vs=[(n, d, p, {','.join(c): [str(x) for x in ps] for c, ps in cpt.items()}) for n, d, p, cpt in vs], budget=200))
    its.append(dict(name='acceptance', kind='accept', budget=200))
    for it in its: it['src'] = it['name'] + str(it.get('vs', ''))
    return its


def decode(vs_json):
    return [(n, d, p, {tuple(c.split(',')) if c else (): [Fraction(x) for x in ps] for c, ps in cpt.items()}) for n, d, p, cpt in vs_json]


def run_bif(text, args, timeout=150):
    return common.run_cli(text, args, timeout=timeout, suffix='.bif')


def code_from(so):
    m = re.search(r'The following code has been generated from the input:\n(.*?\nend)\n', so, re.S)
    return m.group(1) if m else None


def check_item(it):
    viol, checked = [], 0
    if it['kind'] == 'accept':
        rnd = random.Random(3)
        vs = gen_network(rnd, 3, ['A', 'B', 'C'])
        while not vs[2][2]: vs = gen_network(rnd, 3, ['A', 'B', 'C'])
        tol = Fraction(1, 1000)
        cases = [('exact', None, True), ('below tolerance +', (2, tol / 2), True), ('below tolerance -', (2, -tol / 2), True),
                 ('twice the tolerance', (2, 2 * tol), False), ('minus twice the tolerance', (2, -2 * tol), False), ('root row off by 0.01', (0, Fraction(1, 100)), False)]
        for notation in ('entries', 'table', 'default'):
            for label, pert, accept in cases:
                text = bif_text(vs, notation, perturb=pert)
                st, so, se = run_bif(text, ['--bif_to_prob', '/dev/null'])
                checked += 1
                ok = (st == 'ok')
                if ok != accept:
                    viol.append(dict(goal=f'acceptance [{notation}] {label}', n=None, observed='accepted' if ok else 'rejected: ' + se.strip().splitlines()[-1][:80], expected='accepted' if accept else 'rejected'))
        # structural rejections
        base = bif_text(vs, 'entries')
        nm2, dom2 = vs[2][0], vs[2][1]
        broken = {
            'missing row': re.sub(r'\n  \([^\n]*\) [^\n]*;\n\}$', '\n}', base.rstrip('\n')) + '\n',
            'unknown parent value': base.replace('(' + ', '.join(list(itertools.product(*[vs[j][1] for j in vs[2][2]]))[0]) + ')', '(' + ', '.join(['bogus'] * len(vs[2][2])) + ')', 1),
            'variable without cpt': base[:base.rfind('probability')],
            'duplicate domain value': base.replace('{ ' + ', '.join(vs[0][1]) + ' }', '{ ' + ', '.join([vs[0][1][0]] * len(vs[0][1])) + ' }', 1),
        }
        for label, text in broken.items():
            st, so, se = run_bif(text, ['--bif_to_prob', '/dev/null']); checked += 1
            if st == 'ok': viol.append(dict(goal=f'acceptance {label}', n=None, observed='accepted', expected='rejected'))
        return dict(status='violation' if viol else 'ok', checked=checked, violations=viol, nontrivial=True)
    vs = decode(it['vs'])
    truth = joint(vs)
    names = [polar_name(v[0]) for v in vs]
    laws = {}
    for notation, order in (('entries', None), ('table', None), ('default', None), ('entries', 'reversed')):
        st, so, se = run_bif(bif_text(vs, notation, order=order), ['--bif_to_prob', '/dev/null'], timeout=it['budget'])
        if st != 'ok': viol.append(dict(goal=f'notation {notation}/{order}', n=None, observed='rejected: ' + (se.strip().splitlines() or ['?'])[-1][:100], expected='accepted')); continue
        code = code_from(so)
        if not code: viol.append(dict(goal=f'notation {notation}', n=None, observed='no code printed', expected='generated loop')); continue
        # the generated code documents its own name mapping:  # variable: <bif name> <=> <polar name>
        mapping = dict(re.findall(r'# variable: (\S+) <=> (\S+)', code))
        names = [mapping.get(v[0], polar_name(v[0])) for v in vs]
        if len(set(names)) != len(names):
            viol.append(dict(goal=f'name mapping [{notation}]', n=None, observed=str(mapping), expected='distinct loop variables for distinct network variables')); continue
        prog = lang.parse_program(code.replace('\t', '    ')); sem = lang.Sem(prog)
        ws = sem.iterate(sem.init_worlds())
        law = {}
        for w in ws:
            key = tuple(int(sem.read(sp.Symbol(nm), w.st)) for nm in names)
            law[key] = law.get(key, 0) + Fraction(int(w.p.p), int(w.p.q))
        checked += 1
        if law != truth:
            bad = [k for k in set(law) | set(truth) if law.get(k, 0) != truth.get(k, 0)][0]
            viol.append(dict(goal=f'joint law [{notation}{"/" + order if order else ""}]', n=1, observed=f'P{bad} = {law.get(bad, 0)}', expected=str(truth.get(bad, 0))))
    # queries
    tgt = len(vs) - 1
    ev = [(j, 0) for j in range(len(vs) - 1)][:2]
    pev = sum(p for s, p in truth.items() if all(s[j] == v for j, v in ev))
    if pev:
        evtxt = ', '.join(f'{vs[j][0]} = {vs[j][1][v]}' for j, v in ev)
        for k in (1, 2):
            want = sum(p * s[tgt] ** k for s, p in truth.items() if all(s[j] == v for j, v in ev)) / pev
            q = f'{vs[tgt][0]}**{k} | {evtxt}' if k > 1 else f'{vs[tgt][0]} | {evtxt}'
            st, so, se = run_bif(bif_text(vs, 'entries'), ['--exact_inference', q], timeout=it['budget'])
            if st != 'ok': continue
            m = re.search(r'^E\((.*)\) = (.*?) ≈', so, re.M)
            if m:
                got = sp.nsimplify(sp.sympify(m.group(2))); checked += 1
                if sp.Rational(want.numerator, want.denominator) != got:
                    viol.append(dict(goal=f'exact inference {q}', n=k, observed=str(got), expected=str(want)))
        st, so, se = run_bif(bif_text(vs, 'entries'), ['--sample_time_until', evtxt], timeout=it['budget'])
        if st == 'ok':
            m = re.search(r'expected number of samples until .* is (.*?) ≈', so)
            if m:
                got = sp.nsimplify(sp.sympify(m.group(1))); checked += 1
                if got != sp.Rational(pev.denominator, pev.numerator):
                    viol.append(dict(goal=f'sampling time until {evtxt}', n=None, observed=str(got), expected=str(1 / pev)))
    return dict(status='violation' if viol else 'ok', checked=checked, violations=viol[:4], nontrivial=checked >= 4)


def key_of(it, v):
    h = hashlib.sha1(it['src'].encode()).hexdigest()[:10]
    return f"C15:{h}:{it['name']}:{v['goal']}"


def run(tier, seed):
    its = items(tier, seed)
    res = pool.run_items(check_item, its, budget=900)
    r = summarise('C15', its, res, tier, keyfn=key_of,
                  rule="one case per (generated network, notation, joint-law comparison), per query, per acceptance/rejection case; networks: seeded DAGs with 2-4 "
                       "variables, domain sizes 2-3, up to 2 parents, names needing sanitising; non-trivial = >= 4 cases decided; distinct by network",
                  explanation="Bounded part: BIF texts generated by the judge in the table / per-entry / default notations (and with reordered probability blocks) "
                              "are run through the real CLI; the generated loop is executed by the independent semantics and its one-iteration joint law is "
                              "compared exactly with the enumerated joint law; exact-inference and sampling-time answers are compared with enumeration; "
                              "acceptance is compared with 'complete and |1 - row sum| < 0.001'.")
    for v in r['violations']:
        d = v['detail']
        v['what'] = f"{v['item']['name']}: {d['goal']}: Polar {d['observed']} expected {d['expected']}"[:300]
    return r


def replay(d):
    r = check_item(d['item']); print(r); return r['status'] != 'violation'
