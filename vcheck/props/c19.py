"""C19 bounded part:
 (a) every spelling of a spec-AST (whitespace, tabs, comments/blank lines, redundant parentheses, decimal vs fraction, explicit vs omitted last
     probability, simultaneous assignment vs temporaries, elif vs nested else-if, all combined) gives closed forms equal to the exact expectation of
     the canonical text (independent parser + semantics) at n <= N -- hence equal to each other;
 (b) Python operator precedence: arithmetic torture expressions are evaluated like Python evaluates them;
 (c) texts outside the grammar (targeted single edits) are rejected with an error;
 (d) probabilistic choices with constant probabilities that are negative or add up to more than 1 are rejected."""
import hashlib, re
import sympy as sp
from vcheck import common, judge, pool
from vcheck.props.c01 import summarise, goal_monos
from spec import lang, gen, printer

PRECEDENCE = [
("prec1", "x = 1\ny = 2\nwhile true:\n    x = -x**2 + 2*3**2 - 4/2/2 + y\n    y = y - 1\nend", ['x', 'y']),
("prec2", "x = 2\nwhile true:\n    x = 2**3**2/256*x - -x + +1\nend", ['x']),
("prec3", "x = 1\nwhile true:\n    x = (x + 1)*2 - x*3/2 - (1 - (2 - (3 - x)))\nend", ['x']),
("prec4", "x = 3\nwhile true:\n    x = x - 1/2*x - 1/4 * (x - 2) ** 2 + x**2/4\nend", ['x']),
]
BAD_TEXTS = {
    'missing colon after while': "x = 0\nwhile true\n    x = x + 1\nend",
    'missing end': "x = 0\nwhile true:\n    x = x + 1\n",
    'unbalanced parenthesis': "x = 0\nwhile true:\n    x = (x + 1\nend",
    'unbalanced brace': "x = 0\nwhile true:\n    x = x + 1 {1/2 x\nend",
    'double assignment operator': "x = 0\nwhile true:\n    x = = x + 1\nend",
    'if without end': "x = 0\nc = 0\nwhile true:\n    if c == 0:\n        x = x + 1\nend",
    'else without if': "x = 0\nwhile true:\n    else:\n        x = x + 1\n    end\nend",
    'misspelt keyword': "x = 0\nwhille true:\n    x = x + 1\nend",
    'statement after end': "x = 0\nwhile true:\n    x = x + 1\nend\nx = 3",
    'simultaneous arity': "x, y = 0, 0\nwhile true:\n    x, y = y\nend",
    'unknown distribution': "x = 0\nwhile true:\n    x = Cauchyy(0, 1)\nend",
    'condition without operator': "x = 0\nc = 0\nwhile true:\n    if c:\n        x = x + 1\n    end\nend",
}
BAD_PROBS = {
    'probability above one': "x = 0\nwhile true:\n    x = x + 1 {3/2} x\nend",
    'negative probability': "x = 0\nwhile true:\n    x = x + 1 {-1/4} x\nend",
    'explicit probabilities sum above one': "x = 0\nwhile true:\n    x = x + 1 {1/2} x - 1 {3/4}\nend",
    'implicit rest negative': "x = 0\nwhile true:\n    x = x + 1 {1/2} x - 1 {2/3} x\nend",
    'decimal above one': "x = 0\nwhile true:\n    x = x + 1 {1.5} x\nend",
}


def items(tier, seed):
    its = []
    progs = [(n, s, v) for n, s, v in gen.CURATED if n in ('rw2', 'readme', 'fib', 'elif3', 'reassign_cond', 'swap', 'decimal', 'nested', 'guard_two', 'three_way_overlap', 'or_overlap', 'param2', 'du', 'not_and', 'simult_const_first')]
    progs += gen.family(12000 + seed, 4 if tier == 'quick' else 60)
    for n, s, v in progs + PRECEDENCE:
        its.append(dict(name='spell_' + n, kind='spell', src=s, vars=v, nmax=3 if tier == 'quick' else 5, budget=60 if tier == 'quick' else 200,
                        styles=([k for k in printer.STYLES if tier != 'quick' or k not in ('tabs', 'whitespace', 'comments_blank')]) if n not in [p[0] for p in PRECEDENCE] else ['source']))
    its.append(dict(name='rejections', kind='reject', src='rejections', budget=100))
    its.append(dict(name='rename_to_reserved', kind='rename', src="v = 0\nx = 0\nwhile true:\n    v = Bernoulli(1/2)\n    x = x + v\nend", budget=100))
    # names of the generated namespace (D26): single-assignment aliases _x1, get_unique_var names _u0/_t0/_old0/_c0/_r0
    its.append(dict(name='rename_to_generated', kind='rename', budget=100, names=['_x1', '_x2', '_u0', '_u1', '_t0', '_old0', '_old1', '_c0', '_r0', '_a0', '_w'],
                    src="x = 0\nv = 5\nwhile true:\n    x = x + 1\n    v = v + x {1/2} v\n    x = x + 1\nend"))
    its.append(dict(name='rename_param_to_generated', kind='rename', budget=100, names=['_x1', '_u0', '_old0', '_q'], target='q',
                    src="x = 0\nwhile true:\n    x = x + q\n    x = x + 1 {1/2} x\nend"))
    return its


def check_item(it):
    viol, checked = [], 0
    if it['kind'] == 'reject':
        for label, text in list(BAD_TEXTS.items()) + list(BAD_PROBS.items()):
            st, out = common.run_probe('analyze.py', dict(src=text, goals=['x']), timeout=60); checked += 1
            if st != 'ok' or 'probe_error' in out: return dict(status='machinery-error', why=str(out))
            accepted = not ('parse_error' in out or 'normalize_error' in out)
            if accepted:
                r = out['goals'].get('x', {})
                viol.append(dict(goal=f'rejection: {label}', n=None, observed='accepted' + (f", E(x) = {judge.from_srepr(r['closed_form'])}" if 'closed_form' in r else ''), expected='rejected with an error'))
            elif label in BAD_TEXTS and 'parse_error' not in out:
                viol.append(dict(goal=f'rejection: {label}', n=None, observed=f"accepted by the parser, later {out.get('normalize_error')}", expected='parse error'))
        return dict(status='violation' if viol else 'ok', checked=checked, violations=viol, nontrivial=True)
    if it['kind'] == 'rename':
        # alpha-renaming a variable must not change results (names that the CAS reads as constants are the risk)
        base = it['src']; ref = lang.expected_values(base, [sp.Symbol('x')], 3)[sp.Symbol('x')]
        tgt = it.get('target', 'v')
        for nm in it.get('names', ('e', 'pi', 'i', 'gamma', 'beta', 'zeta', 'oo', 'lamda')):
            text = re.sub(r'\b%s\b' % tgt, nm, base)
            ref_nm = [r_.xreplace({sp.Symbol(tgt): sp.Symbol(nm)}) if hasattr(r_, 'xreplace') else r_ for r_ in ref]
            st, out = common.run_probe('analyze.py', dict(src=text, goals=['x']), timeout=60); checked += 1
            if st != 'ok' or 'probe_error' in out: continue
            if 'parse_error' in out or 'normalize_error' in out or 'error' in out['goals']['x']: continue     # refusing the name is fine
            cf = judge.from_srepr(out['goals']['x']['closed_form'])
            for n in range(4):
                ok, _ = judge.is_zero(judge.at_n(cf, n) - ref_nm[n])
                if not ok:
                    viol.append(dict(goal=f'variable named {nm}', n=n, observed=str(judge.at_n(cf, n)), expected=str(ref_nm[n]))); break
        return dict(status='violation' if viol else 'ok', checked=checked, violations=viol, nontrivial=True)
    # spellings
    try:
        prog = lang.parse_program(it['src'])
    except lang.Unsupported as ex:
        return dict(status='skipped', why=f'oracle: {ex}')
    vars_ = [sp.Symbol(v) for v in it['vars']]
    monos = goal_monos(vars_)[:4]
    try:
        spec = lang.expected_values(prog, monos, it['nmax'], seconds=10, max_worlds=3000)
    except lang.Unsupported as ex:
        return dict(status='skipped', why=f'oracle: {ex}')
    nreach = len(spec[monos[0]]) - 1
    from concurrent.futures import ThreadPoolExecutor
    texts = {style: (it['src'] if style == 'source' else printer.program(prog, printer.STYLES[style])) for style in it['styles']}
    with ThreadPoolExecutor(max_workers=4) as tp:
        futs = {style: tp.submit(common.run_probe, 'analyze.py', dict(src=text, goals=[str(m) for m in monos]), it['budget']) for style, text in texts.items()}
        results = {style: f.result() for style, f in futs.items()}
    for style in it['styles']:
        text = texts[style]
        st, out = results[style]
        if st == 'timeout': continue
        if st != 'ok' or 'probe_error' in out: return dict(status='machinery-error', why=str(out))
        if 'parse_error' in out or 'normalize_error' in out:
            viol.append(dict(goal=f'[{style}] accepted', n=None, observed=str(out.get('parse_error') or out.get('normalize_error'))[:150], expected='same analysis as the canonical text', text=text))
            continue
        for m in monos:
            r = out['goals'][str(m)]
            if 'error' in r: continue
            cf = judge.from_srepr(r['closed_form'])
            for n in range(nreach + 1):
                ok, _ = judge.is_zero(judge.at_n(cf, n) - spec[m][n]); checked += 1
                if not ok:
                    viol.append(dict(goal=f'[{style}] E({m})', n=n, observed=str(judge.at_n(cf, n))[:100], expected=str(spec[m][n])[:100], text=text)); break
    return dict(status='violation' if viol else 'ok', checked=checked, violations=viol[:4], nontrivial=checked >= 10)


def key_of(it, v):
    h = hashlib.sha1(it['src'].encode()).hexdigest()[:10]
    return f"C19:{h}:{it['name']}:{v['goal']}"


def run(tier, seed):
    its = items(tier, seed)
    res = pool.run_items(check_item, its, budget=900)
    r = summarise('C19', its, res, tier, keyfn=key_of,
                  rule="one case per (program, spelling style, goal, n <= N); per ill-formed text; per invalid probability vector; per reserved-name renaming; "
                       "10 spelling styles generated by spec/printer.py from the spec-AST; non-trivial = >= 10 cases decided; distinct by program text",
                  explanation="Bounded part: spellings of the same spec-AST are analysed by the real pipeline and compared with the exact expectation of the canonical "
                              "text; targeted ill-formed texts and invalid probability vectors must be rejected; renaming a variable to a name the CAS knows must not "
                              "change the result.")
    for v in r['violations']:
        d = v['detail']
        v['what'] = f"{v['item']['name']}: {d['goal']} n={d.get('n')}: Polar {d['observed']} expected {d['expected']}"[:300]
    return r


def replay(d):
    r = check_item(d['item']); print(r); return r['status'] != 'violation'
