"""C20 bounded part (family H): the analysis of a program P gives the same closed forms, types of original variables and error outcomes
 (a) alone in a fresh process, (b) after other programs were analysed in the same process, (c) analysed twice, (d) with the goals in a different
 order, (e) under different PYTHONHASHSEED values, (f) after a run that changed process-global settings back and forth.
 Frame part: mechanical scan of the whole repository for writes to module-level / class-level state and lru_cache'd methods."""
import ast, glob, hashlib, itertools, json, os, re
import sympy as sp
from vcheck import common, judge, pool
from vcheck.props.c01 import summarise
from spec import gen

PROGS = {n: (s, v) for n, s, v in gen.CURATED}
TARGETS = ['readme', 'elif3', 'func_prev_value', 'reassign_cond', 'guard_two', 'swap', 'uniform_loc', 'du', 'alias_reuse_lhs', 'or_overlap', 'three_way_overlap', 'exp_lap', 'param2']
FUNC_PROG = ("x = 0\nwhile true:\n    d = Normal(0, 1)\n    s = Sin(d)\n    x = x + s*d\nend", ['x'])


def goals_of(vars_):
    gs = list(vars_) + [f'{v}**2' for v in vars_[:2]]
    if len(vars_) > 1: gs.append(f'{vars_[0]}*{vars_[1]}')
    return gs


def items(tier, seed):
    its = []
    tg = TARGETS if tier != 'quick' else TARGETS[:8]
    for i, name in enumerate(tg):
        src, vars_ = PROGS[name]
        goals = goals_of(vars_)
        others = [PROGS[tg[(i + 1) % len(tg)]], PROGS[tg[(i + 3) % len(tg)]]]
        its.append(dict(name=name, src=src, goals=goals, others=[(o[0], goals_of(o[1])) for o in others], seeds=[0, 1, 7] if tier == 'quick' else [0, 1, 2, 3, 5, 7, 11, 13], budget=240,
                        cli_invariants=(i < 2 or tier != 'quick')))
    its.append(dict(name='frame_scan', kind='frame', src='frame'))
    return its


def norm_names(text):
    """generated auxiliary symbols (_name<digits>) are renamed in order of first occurrence"""
    seen = {}
    def rep(m):
        if m.group(0) not in seen: seen[m.group(0)] = f'_AUX{len(seen)}'
        return seen[m.group(0)]
    return re.sub(r'_[A-Za-z]+\d+', rep, text)


def same(a, b):
    """two step results agree: same error outcomes, closed forms equal at n = 0..4 (up to names of generated symbols), same types of original variables"""
    if ('error' in a) != ('error' in b): return f"error outcome differs: {a.get('error')} vs {b.get('error')}"
    if 'error' in a: return None
    for g in a['goals']:
        ga, gb = a['goals'][g], b['goals'].get(g)
        if gb is None: continue
        if ('error' in ga) != ('error' in gb): return f'goal {g}: error outcome differs ({ga.get("error")} vs {gb.get("error")})'
        if 'error' in ga: continue
        if ga['is_exact'] != gb['is_exact']: return f'goal {g}: exactness flag differs'
        ca, cb = judge.from_srepr(norm_names(ga['cf'])), judge.from_srepr(norm_names(gb['cf']))
        for n in range(5):
            ok, _ = judge.is_zero(judge.at_n(ca, n) - judge.at_n(cb, n))
            if not ok: return f'goal {g} at n={n}: {judge.at_n(ca, n)} vs {judge.at_n(cb, n)}'
    ta = {v: t for v, t in a['types'].items() if v in a['original_variables']}
    tb = {v: t for v, t in b['types'].items() if v in b['original_variables']}
    if ta != tb: return f'types of original variables differ: {ta} vs {tb}'
    return None


# allow-list of process-global writes (file, kind, name)
ALLOWED_GLOBAL_WRITES = {
    ('utils/identifiers.py', 'global', '_count_unique_var'),
    ('cli/argument_parser.py', 'module-attr', 'settings.*'),
    ('cli/actions/plot_action.py', 'module-attr', 'settings.*'),
    ('program/transformer/__init__.py', 'class-attr', 'FunctionalAssignment.exact_func_moments'),
}


def frame_scan():
    """every `global` statement, every store to an attribute of an imported module or of a class object (Name starting upper-case), outside tests/"""
    repo = common.REPO
    found = set(); cached = []
    for path in glob.glob(os.path.join(repo, '**', '*.py'), recursive=True):
        rel = os.path.relpath(path, repo)
        if rel.startswith('tests') or rel.startswith('benchmarks'): continue
        try: tree = ast.parse(open(path).read())
        except SyntaxError: continue
        mods = set()
        for n in ast.walk(tree):
            if isinstance(n, ast.Import): mods |= {a.asname or a.name.split('.')[0] for a in n.names}
        for n in ast.walk(tree):
            if isinstance(n, ast.Global):
                for nm in n.names: found.add((rel, 'global', nm))
            tg = []
            if isinstance(n, ast.Assign): tg = n.targets
            elif isinstance(n, (ast.AugAssign, ast.AnnAssign)): tg = [n.target]
            for t in tg:
                if isinstance(t, ast.Attribute) and isinstance(t.value, ast.Name):
                    if t.value.id in mods and t.value.id == 'settings': found.add((rel, 'module-attr', 'settings.*'))
                    elif t.value.id in mods: found.add((rel, 'module-attr', f'{t.value.id}.{t.attr}'))
                    elif t.value.id[:1].isupper() and t.value.id not in ('Symbol',): found.add((rel, 'class-attr', f'{t.value.id}.{t.attr}'))
                    elif t.value.id == 'cls': found.add((rel, 'class-attr', f'cls.{t.attr}'))
                # the parsed command line is ONE object shared by the analyses of all benchmark files of a run (polar.main): a store into it is history
                if isinstance(t, ast.Attribute) and 'cli_args' in ast.unparse(t.value).split('.') and rel != 'polar.py':
                    found.add((rel, 'shared-cli-args', f'cli_args.{t.attr}'))
            if isinstance(n, ast.FunctionDef):
                for d in n.decorator_list:
                    if 'lru_cache' in ast.unparse(d): cached.append((rel, n.name))
    return found, cached


def check_item(it):
    viol, checked = [], 0
    if it.get('kind') == 'frame':
        found, cached = frame_scan()
        extra = found - ALLOWED_GLOBAL_WRITES
        checked = len(found) + len(cached)
        for e in sorted(extra):
            viol.append(dict(goal=f'process-global write {e[1]} {e[2]} in {e[0]}', n=None, observed='write outside the allow-list', expected='no new process-global state'))
        # lru_cache on methods whose object is mutated after construction: the known pairs must stay as they are (subs vs cached get_moment)
        return dict(status='violation' if viol else 'ok', checked=checked, violations=viol, nontrivial=True, cached=len(cached), writes=sorted(map(str, found)))
    A = dict(src=it['src'], goals=it['goals'])
    others = [dict(src=s, goals=g) for s, g in it['others']]
    func = dict(src=FUNC_PROG[0], goals=FUNC_PROG[1], settings=dict(exact_func_moments=True))
    func_off = dict(src=FUNC_PROG[0], goals=FUNC_PROG[1], settings=dict(exact_func_moments=False))
    runs = {
        'alone': ([A], 0, {}),
        'after others': (others + [A], len(others), {}),
        'twice': ([A, A], 1, {}),
        'goals reversed': ([dict(src=it['src'], goals=list(reversed(it['goals'])))], 0, {}),
        'after exact-func run': ([func, func_off, A], 2, {}),
        'after option toggling': ([dict(src=others[0]['src'], goals=others[0]['goals'], settings=dict(cond2arithm=True, transform_categoricals=True)),
                                   dict(src=others[0]['src'], goals=[], settings=dict(cond2arithm=False, transform_categoricals=False)), A], 2, {}),
    }
    for g in it['goals'][:3]:          # every goal also on its own: one builder serves all goals of a run, nothing may leak from one goal to the next
        runs[f'goal {g} alone'] = ([dict(src=it['src'], goals=[g])], 0, {})
    for s in it['seeds']:
        runs[f'hash seed {s}'] = ([A], 0, {'PYTHONHASHSEED': str(s)})
    res = {}
    for label, (seq, idx, env) in runs.items():
        st, out = common.run_probe('history.py', dict(sequence=seq), timeout=it['budget'], env=env)
        if st == 'timeout': continue
        if st != 'ok' or 'probe_error' in out: return dict(status='machinery-error', why=str(out))
        res[label] = out['steps'][idx]
    # the real command line on several files in one process (one action object is called for every benchmark, polar.main)
    other = others[0]
    shared = [g for g in it['goals'] if g in other['goals']] or it['goals'][:2]
    gargs = ['--goals'] + [f'E({g})' for g in shared]

    def sections(so):
        parts = so.split('- Analysis Result -')[1:]
        out = []
        for part in parts:
            d = {}
            for line in part.splitlines():
                mm = re.match(r'^(E\(.*?\)|[A-Za-z_][\w*]*) = (.*)$', line.strip())
                if mm and '|' not in mm.group(1): d[mm.group(1)] = mm.group(2)
            out.append(d)
        return out
    st1, so1, _ = common.run_cli_files([it['src']], gargs, timeout=it['budget'])
    st2, so2, _ = common.run_cli_files([other['src'], it['src']], gargs, timeout=it['budget'])
    st3, so3, _ = common.run_cli_files([it['src'], other['src'], it['src']], gargs, timeout=it['budget'])
    if st1 == 'ok':
        alone = sections(so1)[0] if sections(so1) else {}
        for label, (stx, sox, idx) in {'cli: second file after another file': (st2, so2, 1), 'cli: third file (same file again after another)': (st3, so3, 2)}.items():
            if stx != 'ok': continue
            secs = sections(sox)
            if len(secs) <= idx: continue
            checked += 1
            for g, txt in alone.items():
                other_txt = secs[idx].get(g)
                if other_txt is None: viol.append(dict(goal=label, n=None, observed=f'{g} not printed', expected=txt)); break
                a_sp, a_g = common.parse_printed(norm_names(txt)); b_sp, b_g = common.parse_printed(norm_names(other_txt))
                bad = None
                for n in range(5):
                    ok, _ = judge.is_zero(common.printed_at(a_sp, a_g, n) - common.printed_at(b_sp, b_g, n))
                    if not ok: bad = n; break
                if bad is not None:
                    viol.append(dict(goal=label, n=bad, observed=f'{g} = {other_txt}', expected=f'{g} = {txt} (as printed when the file is analysed alone)')); break
    # the same with default goals (--invariants without --goals): the defaulted goals belong to one benchmark (D25)
    if st1 == 'ok' and it.get('cli_invariants'):
        si1, oi1, _ = common.run_cli_files([it['src']], ['--invariants'], timeout=it['budget'])
        si2, oi2, ei2 = common.run_cli_files([other['src'], it['src']], ['--invariants'], timeout=it['budget'])
        sio, _, _ = common.run_cli_files([other['src']], ['--invariants'], timeout=it['budget'])      # an error of the FIRST file ends the run: nothing to compare then
        if si1 == 'ok' and sio == 'ok' and si2 != 'timeout':
            checked += 1
            label = 'cli --invariants (default goals): second file after another file'
            alone_secs = sections(oi1)
            if si2 != 'ok':
                viol.append(dict(goal=label, n=None, observed='error: ' + (ei2.strip().splitlines() or ['?'])[-1][:160], expected='the analysis printed when the file is analysed alone'))
            elif alone_secs:
                secs = sections(oi2)
                got = secs[1] if len(secs) > 1 else {}
                if set(got) != set(alone_secs[0]):
                    viol.append(dict(goal=label, n=None, observed=f'goals answered: {sorted(got)}', expected=f'goals answered alone: {sorted(alone_secs[0])}'))
    base = res.get('alone')
    if base is None: return dict(status='skipped', why='baseline run timed out')
    for label, r in res.items():
        if label == 'alone': continue
        checked += 1
        d = same(base, r)
        if d: viol.append(dict(goal=f'{label}', n=None, observed=d, expected='same results as in a fresh process'))
    return dict(status='violation' if viol else 'ok', checked=checked, violations=viol[:4], nontrivial=checked >= 5)


def key_of(it, v):
    h = hashlib.sha1(it['src'].encode()).hexdigest()[:10]
    return f"C20:{h}:{it['name']}:{v['goal']}"


def run(tier, seed):
    its = items(tier, seed)
    res = pool.run_items(check_item, its, budget=900)
    r = summarise('C20', its, res, tier, keyfn=key_of,
                  rule="one case per (program, history variant): after two other programs, analysed twice, goals reversed, after an exact-func-moments run, after "
                       "option toggling, under 3 (quick) / 8 (thorough) hash seeds, each compared with the analysis alone in a fresh process (closed forms at "
                       "n = 0..4 exact, exactness flags, types of original variables, error outcomes; generated symbol names normalised); plus the frame scan; "
                       "non-trivial = >= 5 variants compared; distinct by program",
                  explanation="Bounded part over histories H plus a mechanical frame scan (AST) of the repository for process-global writes against a committed "
                              "allow-list {_count_unique_var, settings.*, FunctionalAssignment.exact_func_moments}.")
    for v in r['violations']:
        d = v['detail']
        v['what'] = f"{v['item']['name']}: {d['goal']}: {d['observed']} (expected {d['expected']})"[:300]
    return r


def replay(d):
    r = check_item(d['item']); print(r); return r['status'] != 'violation'
