"""C03 certificate part: postcondition of RecBuilder.get_recurrences on family G, decided by the independent semantics:
  (a) one-step identity  E[M(step(sigma))] == rhs(sigma)  for EVERY typed symbolic pre-state sigma (finite variables range over
      their types, all other variables stay symbolic) -- all states, not reachable samples;
  (b) recorded initial value == E(M) after the initial block;  (c) closedness: every monomial of a right-hand side has an equation;
  (d) Recurrences._init_data: matrix row i / vector entry i are exactly the coefficients / initial value of monomial i."""
import hashlib, itertools, random
import sympy as sp
from vcheck import common, judge, pool
from vcheck.props.c01 import summarise, goal_monos
from spec import lang, gen, flat

MAX_PRE = 200


def items(tier, seed):
    its = [dict(name=n, src=s, vars=v) for n, s, v in gen.CURATED]
    its += [dict(name=n, src=s, vars=v) for n, s, v in gen.family(3000 + seed, 30 if tier == 'quick' else 300)]
    for it in its:
        it['budget'] = 45 if tier == 'quick' else 150
        it['seed'] = seed
    return its


def symbols_in_cond(c, acc):
    if c['t'] == 'atom':
        acc |= flat.E(c['l']).free_symbols | flat.E(c['r']).free_symbols
    for k in ('a', 'b'):
        if k in c: symbols_in_cond(c[k], acc)


def check_item(it):
    src = it['src']
    vars_ = [sp.Symbol(v) for v in it['vars']]
    monos = goal_monos(vars_)
    st, out = common.run_probe('analyze.py', dict(src=src, goals=[str(m) for m in monos], want=['nosolve']), timeout=it['budget'])
    if st == 'timeout': return dict(status='skipped', why='probe budget exceeded')
    if st != 'ok' or 'probe_error' in out: return dict(status='machinery-error', why=str(out))
    if 'parse_error' in out or 'normalize_error' in out:
        return dict(status='refused', why=str(out.get('parse_error') or out.get('normalize_error')))
    pj = out['program']
    types = {sp.Symbol(v): [flat.E(x) for x in vals] for v, vals in pj['types'].items()}
    progvars = [sp.Symbol(v) for v in pj['variables']]
    params = {sp.Symbol(s) for s in pj['symbols']}
    # variables read by the body
    read = set()
    for a in pj['body']:
        symbols_in_cond(a['cond'], read)
        read.add(sp.Symbol(a['default']))
        if a['t'] == 'poly':
            for p in a['polys'] + a['probs']: read |= flat.E(p).free_symbols
        elif a['t'] == 'dist':
            for v in a['dist']['params'].values():
                for x in (v if isinstance(v, list) else [v]): read |= flat.E(x).free_symbols
    rnd = random.Random(it['seed'])
    viol, checked, refused = [], 0, 0
    seen_eq = set()
    try:
        isem = flat.FlatSem(pj)
        iworlds = isem.init_worlds()
    except lang.Unsupported as ex:
        isem = None
    for g in monos:
        r = out['goals'][str(g)]
        if 'error' in r: refused += 1; continue
        rec = {flat.E(k): flat.E(v) for k, v in r['rec'].items()}
        init = {flat.E(k): flat.E(v) for k, v in r['init'].items()}
        keys = set(rec)
        # (d) matrix / vector
        mons = [flat.E(m) for m in r['monomials']]
        M = [[flat.E(x) for x in row] for row in r['matrix']]
        vec = [flat.E(x) for x in r['vector']]
        for i, m in enumerate(mons):
            row = M[i]
            lin = sum(row[j] * mons[j] for j in range(len(mons)))
            if len(row) > len(mons): lin += row[-1]
            ok, _ = judge.is_zero(lin - rec[m]); checked += 1
            if not ok: viol.append(dict(goal=str(g), n=None, what='matrix row != recurrence', monomial=str(m), observed=str(lin), expected=str(rec[m])))
            ok, _ = judge.is_zero(vec[i] - init[m]); checked += 1
            if not ok: viol.append(dict(goal=str(g), n=None, what='vector entry != initial value', monomial=str(m), observed=str(vec[i]), expected=str(init[m])))
        for m, rhs in rec.items():
            if (m, rhs) in seen_eq: continue
            seen_eq.add((m, rhs))
            # (c) closedness
            pv = [v for v in progvars if v in rhs.free_symbols]
            if pv:
                try:
                    for mon in sp.Poly(rhs, *pv).monoms():
                        t = sp.Mul(*[v ** e for v, e in zip(pv, mon)])
                        checked += 1
                        if t != 1 and t not in keys:
                            viol.append(dict(goal=str(g), n=None, what='system not closed', monomial=str(m), observed=f'{t} has no equation', expected='closed system'))
                except sp.PolynomialError:
                    viol.append(dict(goal=str(g), n=None, what='right-hand side not polynomial', monomial=str(m), observed=str(rhs), expected='polynomial'))
            # (b) initial value
            if isem is not None:
                try:
                    e0 = isem.expect(m, iworlds)
                    ok, _ = judge.is_zero(e0 - init[m]); checked += 1
                    if not ok: viol.append(dict(goal=str(g), n=0, what='initial value', monomial=str(m), observed=str(init[m]), expected=str(e0)))
                except lang.Unsupported:
                    pass
            # (a) one-step identity on every typed pre-state
            fin = sorted([v for v in types if v in (read | m.free_symbols | rhs.free_symbols)], key=str)
            space = 1
            for v in fin: space *= len(types[v])
            if space <= MAX_PRE: pres = list(itertools.product(*[types[v] for v in fin]))
            else: pres = [tuple(rnd.choice(types[v]) for v in fin) for _ in range(MAX_PRE)]
            for combo in pres:
                pre = dict(zip(fin, combo))
                try:
                    lhs = flat.one_step(pj, m, pre)
                except lang.Unsupported as ex:
                    break
                ok, _ = judge.is_zero(lhs - rhs.xreplace(pre)); checked += 1
                if not ok:
                    viol.append(dict(goal=str(g), n=None, what='one-step identity', monomial=str(m), pre={str(k): str(v) for k, v in pre.items()},
                                     observed=str(sp.expand(rhs.xreplace(pre))), expected=str(lhs)))
                    break
    for v in viol: v.setdefault('goal', '')
    return dict(status='violation' if viol else 'ok', checked=checked, refused_goals=refused, violations=viol, nontrivial=checked > 10)


def key_of(it, v):
    h = hashlib.sha1((it['src'] + '|' + v.get('monomial', '') + v.get('what', '')).encode()).hexdigest()[:12]
    return f"C03:{h}:{it['name']}:{v.get('what')}:{v.get('monomial')}"


def run(tier, seed):
    its = items(tier, seed)
    res = pool.run_items(check_item, its, budget=150 if tier == 'quick' else 500)
    r = summarise('C03', its, res, tier, keyfn=key_of,
                  rule="one case per (program, equation of a generated system, typed pre-state) plus initial-value, closedness and matrix-row cases; "
                       "non-trivial = more than 10 cases decided for the program; distinct by program text",
                  explanation="Certificate part: for every equation of every recurrence system the real RecBuilder produced on family G, the one-step "
                              "identity is decided by the independent semantics of the normalised program for every typed pre-state (finite variables "
                              "enumerated over their types, everything else symbolic), plus initial values, closedness and matrix extraction. Bounded in "
                              "the program family; never counted as proved.")
    for v in r['violations']:
        d = v['detail']
        v['what'] = f"{v['item']['name']}: {d.get('what')} for {d.get('monomial')}: Polar {d.get('observed')} expected {d.get('expected')} pre={d.get('pre')}"[:300]
    return r


def replay(d):
    r = check_item(d['item']); print(r); return r['status'] != 'violation'
