"""C05 bounded part: postcondition of TypeInferer / FiniteFixedPointTyper.infer_types on family G x type_fp_iterations:
   every value any variable of the normalised program (auxiliaries included) holds after any assignment in iterations <= N
   (continuing after the guard is false) belongs to its inferred finite type.  Values come from the independent semantics."""
import hashlib
import sympy as sp
from vcheck import common, judge, pool
from vcheck.props.c01 import summarise
from spec import lang, gen, flat

TYPER_PROGRAMS = [
("chain3", """x, c, b, a, s = 0, 0, 0, 0, 0
while true:
    a = b
    b = c
    c = x
    x = 0 {1/2} 2
    s = a**2
end""", ['s', 'a']),
("counter_mod3", """k = 0
x = 0
while true:
    if k == 2:
        k = 0
    else:
        k = k + 1
    end
    x = x + k
end""", ['x', 'k']),
("late_value", """g = 1
u = 0
v = 7
x = 0
while g == 1:
    u = v
    v = 3
    g = Bernoulli(1/2)
    x = x + u
end""", ['x', 'u', 'v']),
("grow_slow", """a = 0
b = 0
c = 0
x = 0
while true:
    c = b
    b = a
    a = 1 {1/2} a
    x = x + c**3
end""", ['x', 'c']),
("flip", """s = 1
x = 0
while true:
    s = -1*s
    x = x + s**2 + s
end""", ['x', 's']),
("du_chain", """d = 0
f = 0
x = 0
while true:
    f = d
    d = DiscreteUniform(1, 3)
    x = x + f**4
end""", ['x', 'f']),
("guard_stop_copy", """stop = 0
y = 4
z = 0
while stop == 0:
    z = y
    y = 1 {1/2} 2
    stop = Bernoulli(1/4)
end""", ['z', 'y']),
]


def items(tier, seed):
    base = [dict(name=n, src=s, vars=v) for n, s, v in TYPER_PROGRAMS + gen.CURATED]
    base += [dict(name=n, src=s, vars=v) for n, s, v in gen.family(5000 + seed, 20 if tier == 'quick' else 200)]
    its = []
    for it in base:
        for k in ([2, 100] if tier == 'quick' else [1, 2, 3, 5, 100]):
            d = dict(it); d['fp'] = k; d['name'] = f"{it['name']}@fp{k}"; d['nmax'] = 6 if tier == 'quick' else 9
            d['budget'] = 40 if tier == 'quick' else 120
            its.append(d)
    return its


def check_item(it):
    st, out = common.run_probe('analyze.py', dict(src=it['src'], goals=[], settings=dict(type_fp_iterations=it['fp'])), timeout=it['budget'])
    if st == 'timeout': return dict(status='skipped', why='probe budget exceeded')
    if st != 'ok' or 'probe_error' in out: return dict(status='machinery-error', why=str(out))
    if 'parse_error' in out or 'normalize_error' in out:
        return dict(status='refused', why=str(out.get('parse_error') or out.get('normalize_error')))
    pj = out['program']
    try:
        declared = set(lang.parse_program(it['src']).types)
    except Exception:
        declared = set()
    types = {v: {flat.E(x) for x in vals} for v, vals in pj['types'].items() if v not in declared}
    seen = {}
    sem = flat.FlatSem(pj, max_worlds=4000)
    sem.trace = lambda var, val: seen.setdefault(var, set()).add(val)
    import time
    t0 = time.time()
    try:
        ws = sem.init_worlds()
        for n in range(it['nmax']):
            ws = sem.iterate(ws)
            if time.time() - t0 > 15 and n >= 3: break
    except lang.Unsupported as ex:
        if not seen: return dict(status='skipped', why=f'oracle: {ex}')
    viol, checked = [], 0
    for v, vals in types.items():
        for val in seen.get(v, ()):
            checked += 1
            ok = any(judge.is_zero(val - t)[0] for t in vals) if not val.free_symbols or any(t.free_symbols for t in vals) else False
            if not ok:
                viol.append(dict(goal=v, n=None, observed=f"type {sorted(map(str, vals))}", expected=f"value {val} reachable", value=str(val)))
                break
    return dict(status='violation' if viol else 'ok', checked=checked, violations=viol, nontrivial=len(types) >= 1 and checked >= 3,
                typed=sorted(types))


def key_of(it, v):
    h = hashlib.sha1((it['src'] + f"|{it['fp']}|" + v['goal']).encode()).hexdigest()[:12]
    return f"C05:{h}:{it['name']}:{v['goal']}"


def run(tier, seed):
    its = items(tier, seed)
    res = pool.run_items(check_item, its, budget=120 if tier == 'quick' else 400)
    r = summarise('C05', its, res, tier, keyfn=key_of,
                  rule="one case per (program, type_fp_iterations, typed variable, reachable value); values are those the independent semantics "
                       "of the normalised program stores into the variable within N iterations (guard-false iterations included); non-trivial = "
                       "at least one inferred type and >= 3 values checked; distinct by (program text, fp iterations)",
                  explanation="Bounded part: the real normalisation + type inference run on family G (plus typer-specific chains, modular counters, "
                              "values appearing only after the guard is false) under type_fp_iterations in {2,100} (quick) / {1,2,3,5,100} (thorough); "
                              "every reachable value of every typed, not user-declared variable must lie in its inferred type. Bounded in programs and "
                              "iterations; never counted as proved.")
    for v in r['violations']:
        d = v['detail']
        v['what'] = f"{v['item']['name']}: variable {d['goal']} typed {d['observed']} but {d['expected']}"[:300]
    return r


def replay(d):
    r = check_item(d['item']); print(r); return r['status'] != 'violation'
