"""C18 bounded part: exceptional postcondition 'requires in_documented_class(P); ensures no exception' of the whole pipeline on family G
(generated inside the README restrictions by construction) plus class-specific curated programs (constants in conditions, branches reassigning
their own condition variables, non-integer finite values in conditions, goals over loop-constant variables, guards that bound a counter).
Every monomial of degree <= 2 over the original variables must yield a closed form; an exception of any kind is a violation (time-outs of the
per-program budget are counted as skipped, not as violations). Wrong-or-partial results are C01's business (same family)."""
import hashlib
import sympy as sp
from vcheck import common, judge, pool
from vcheck.props.c01 import summarise, goal_monos
from spec import lang, gen

CLASS_PROGRAMS = [
("const_goal", "c = 3\nx = 0\nwhile true:\n    x = x + c\nend", ['x', 'c']),
("const_in_cond", "k = 2\nx = 0\nc = 0\nwhile true:\n    c = Categorical(1/3, 1/3, 1/3)\n    if c < k:\n        x = x + 1\n    end\nend", ['x', 'c']),
("halfvals", "x = 0\ny = 1/2\nwhile true:\n    y = 1/2 {1/2} 3/2\n    if y < 1:\n        x = x + 1\n    end\nend", ['x', 'y']),
("bounded_counter_guard", "k = 0\ns = 0\nwhile k <= 1:\n    k = k + 1 {1/2} k\n    s = s + 2\nend", ['s', 'k']),
("reassign_own_cond_nested", "c = 1\nd = 0\nx = 0\nwhile true:\n    if c == 1:\n        if d == 0:\n            d = 1\n            c = Bernoulli(1/2)\n        else:\n            d = 0\n        end\n        x = x + 1\n    else:\n        c = 1\n    end\nend", ['x', 'c', 'd']),
("neg_values_cond", "s = -1\nx = 0\nwhile true:\n    s = -1*s\n    if s < 0:\n        x = x + 1\n    end\nend", ['x', 's']),
("decimal_finite_cond", "y = 0.5\nx = 0\nwhile true:\n    y = 0.5 {1/2} 1.5\n    if y > 1:\n        x = x + y\n    end\nend", ['x', 'y']),
("guard_and_if_same_var", "g = 1\nx = 0\nwhile g == 1:\n    if g == 1:\n        g = Bernoulli(1/2)\n    end\n    x = x + 1\nend", ['x', 'g']),
("loc_scale_draws", "x = 0\ns = 0\nwhile true:\n    x = x + 1 {1/2} x\n    u = Normal(x, 4)\n    w = Uniform(x, x + 1)\n    v = Laplace(x, 1)\n    s = s + u + w + v\nend", ['s', 'x']),
("param_cyclic", "x = 0\ny = 1\nwhile true:\n    x, y = y, q*x + y\nend", ['x', 'y']),
("nonlinear_acyclic", "a = 0\nb = 0\nc = 0\nwhile true:\n    a = a + 1 {1/2} a\n    b = b + a**2\n    c = c + a*b\nend", ['a', 'b', 'c']),
]


def items(tier, seed):
    its = [dict(name=n, src=s, vars=v) for n, s, v in CLASS_PROGRAMS + [c for c in gen.CURATED if c[0] not in ('d18_uninit_under_guard', 'halfvals', 'const_in_cond')]]
    its += [dict(name=n, src=s, vars=v) for n, s, v in gen.family(15000 + seed, 16 if tier == 'quick' else 300, allow_params=False)]
    for it in its: it['budget'] = 60 if tier == 'quick' else 240
    return its


def check_item(it):
    vars_ = [sp.Symbol(v) for v in it['vars']]
    monos = goal_monos(vars_)
    st, out = common.run_probe('analyze.py', dict(src=it['src'], goals=[str(m) for m in monos]), timeout=it['budget'])
    if st == 'timeout': return dict(status='skipped', why='probe budget exceeded')
    if st != 'ok' or 'probe_error' in out: return dict(status='machinery-error', why=str(out))
    viol, checked = [], 1
    for key in ('parse_error', 'normalize_error'):
        if key in out:
            e = out[key]
            viol.append(dict(goal=key.replace('_', ' '), n=None, observed=f"{e['error']}: {e['msg'][:120]} @ {e.get('where', [''])[-1]}", expected='program of the documented class is accepted'))
    if not viol:
        for m in monos:
            r = out['goals'][str(m)]; checked += 1
            if 'error' in r:
                e = r['error']
                viol.append(dict(goal=f'E({m})', n=None, observed=f"{e['error']}: {e['msg'][:100]} @ {e.get('where', [''])[-1]}", expected='a closed form'))
            elif r.get('classified_solvable') is False and it['name'] in EFFECTIVE:
                # the goal HAS a closed form, yet the effectiveness classification says it has none: `--solvability_check` would refuse it
                viol.append(dict(goal=f'E({m}) classification', n=None, observed='classified not effective/solvable (refused under --solvability_check)', expected='classified solvable: a closed form exists'))
    return dict(status='violation' if viol else 'ok', checked=checked, violations=viol[:3], nontrivial=True)


# programs whose non-linear dependencies are acyclic by construction (the README's own example shape): the effectiveness classification used by
# --solvability_check must accept them.  (For other programs the classification is only a sufficient condition: a goal can have a closed form
# although it is classified defective, e.g. through finite variables -- that is not a violation.)
EFFECTIVE = {'nonlinear_chain'}


def key_of(it, v):
    h = hashlib.sha1(it['src'].encode()).hexdigest()[:10]
    return f"C18:{h}:{it['name']}:{v['goal']}"


def run(tier, seed):
    its = items(tier, seed)
    res = pool.run_items(check_item, its, budget=400)
    r = summarise('C18', its, res, tier, keyfn=key_of,
                  rule="one case per (program of the documented class, acceptance) and per (program, monomial of degree <= 2 over its original variables); programs: "
                       "class-specific curated list + curated family + seeded generator (all inside the README restrictions by construction); non-trivial = all; "
                       "distinct by program text",
                  explanation="Bounded part: totality of the real pipeline on programs inside the documented class: normalisation must accept and every goal must yield a "
                              "closed form; any exception is reported. Bounded in programs, degree 2, per-program wall-clock budget (time-outs are skipped).")
    for v in r['violations']:
        d = v['detail']
        v['what'] = f"{v['item']['name']}: {d['goal']}: Polar {d['observed']} (expected {d['expected']})"[:300]
    return r


def replay(d):
    r = check_item(d['item']); print(r); return r['status'] != 'violation'
