"""C01 bounded/certificate part: end-to-end contract of get_moment / RecurrenceSolver.get on family G:
   eval(closed form, n) == E_spec(P, M, n)  for n = 0..N, exact, with E_spec from the independent reference semantics."""
import glob, hashlib, os, sys
import sympy as sp
from vcheck import common, judge, pool
from spec import lang, gen

NMAX = {'quick': 5, 'thorough': 7}


def items(tier, seed):
    its = [dict(name=n, src=s, vars=v) for n, s, v in gen.CURATED]
    its += [dict(name=n, src=s, vars=v) for n, s, v in gen.family(1000 + seed, 32 if tier == 'quick' else 400)]
    for it in its:
        it['nmax'] = NMAX.get(tier, 5)
        it['budget'] = 45 if tier == 'quick' else 150        # probe wall-clock budget (s)
        it['oracle_s'] = 8 if tier == 'quick' else 40
    return its


def goal_monos(vars_):
    ms = list(vars_) + [v ** 2 for v in vars_]
    if len(vars_) >= 2: ms.append(vars_[0] * vars_[1])
    if len(vars_) >= 3: ms.append(vars_[1] * vars_[2])
    return ms


def check_item(it):
    import threading
    src = it['src']
    try:
        prog = lang.parse_program(src)
    except lang.Unsupported as ex:
        return dict(status='skipped', why=f'oracle: {ex}')
    vars_ = [sp.Symbol(v) for v in it['vars']]
    monos = goal_monos(vars_)
    box = {}
    th = threading.Thread(target=lambda: box.update(r=common.run_probe('analyze.py', dict(src=src, goals=[str(m) for m in monos]),
                                                                     timeout=it.get('budget', 90))))
    th.start()
    try:
        spec = lang.expected_values(prog, monos, it['nmax'], seconds=it.get('oracle_s', 20), max_worlds=3000)
    except lang.Unsupported as ex:
        th.join()
        return dict(status='skipped', why=f'oracle: {ex}')
    th.join()
    st, out = box['r']
    if st == 'timeout': return dict(status='skipped', why='probe budget exceeded')
    if st != 'ok': return dict(status='machinery-error', why=str(out))
    if 'probe_error' in out: return dict(status='machinery-error', why=str(out))
    if 'parse_error' in out or 'normalize_error' in out:
        return dict(status='refused', why=str(out.get('parse_error') or out.get('normalize_error')))
    viol, checked, refused, how = [], 0, 0, set()
    nreach = len(spec[monos[0]]) - 1
    for m in monos:
        r = out['goals'][str(m)]
        if 'error' in r: refused += 1; continue
        cf = judge.from_srepr(r['closed_form'])
        if any(str(x).startswith('_prob') for x in cf.free_symbols): refused += 1; continue    # condition abstracted as a documented symbolic probability
        for n in range(nreach + 1):
            got = judge.at_n(cf, n)
            ok, h = judge.is_zero(got - spec[m][n]); how.add(h)
            checked += 1
            if not ok:
                viol.append(dict(goal=str(m), n=n, observed=str(got), expected=str(spec[m][n]), is_exact=r.get('is_exact'),
                                 solver=r.get('solver')))
                break
    return dict(status='violation' if viol else 'ok', checked=checked, refused_goals=refused, violations=viol, how=sorted(how), nreach=nreach,
                nontrivial=any(any(spec[m][n] != spec[m][0] for n in range(1, nreach + 1)) for m in monos))


def key_of(it, v):
    return 'C01:' + hashlib.sha1((it['src'] + '|' + v['goal']).encode()).hexdigest()[:12] + f":{it['name']}:{v['goal']}"


def run(tier, seed):
    its = items(tier, seed)
    res = pool.run_items(check_item, its, budget=120 if tier == 'quick' else 400)
    return summarise('C01', its, res, tier,
                     rule="one case per (program, goal monomial of degree <= 2, n <= N); program texts: curated list + seeded generator "
                          "(spec/gen.py); non-trivial = the reference sequence of some goal is not constant in n; distinct by program text",
                     explanation="Bounded part: end-to-end postcondition of the real pipeline (parse, normalise, recurrences, solve) on family G: "
                                 "the closed form evaluated at n = 0..N equals the exact expectation computed by the independent reference "
                                 "semantics (spec/lang.py: own parser, exact path enumeration, own moment tables). Bounded in programs and n; "
                                 "never counted as proved.")


def summarise(pid, its, res, tier, rule, explanation, keyfn=None):
    keyfn = keyfn or key_of
    viol, samples, notes = [], [], []
    n_ok = n_skip = n_ref = n_eval = n_nontriv = 0
    for it, r in zip(its, res):
        if r['status'] == 'machinery-error':
            raise common.MachineryError(f"{it['name']}: {r['why']}")
        if r['status'] == 'skipped': n_skip += 1; continue
        if r['status'] == 'refused': n_ref += 1; continue
        n_eval += r.get('checked', 0)
        if r.get('nontrivial'): n_nontriv += 1
        if r['status'] == 'ok': n_ok += 1
        if len(samples) < 3 and r['status'] == 'ok' and r.get('nontrivial'):
            samples.append(dict(program=it['src'], goals=it.get('vars'), checked=r.get('checked'), how=r.get('how')))
        for v in r.get('violations', []):
            viol.append(dict(kind='bounded', key=keyfn(it, v), item=it, detail=v, confirmed=True,
                             what=f"{it['name']}: {v.get('goal', '')} at n={v.get('n')}: Polar {v.get('observed')} expected {v.get('expected')}"[:300]))
    return dict(violations=viol, notes=notes, samples=samples, evaluations=n_eval, distinct_nontrivial=n_nontriv, rule=rule,
                explanation=explanation, items=len(its), ok=n_ok, skipped=n_skip, refused=n_ref,
                summary=f"{len(its)} items: {n_ok} ok, {n_skip} skipped, {n_ref} refused, {len(viol)} failing goals",
                assumptions=["reference semantics spec/lang.py (trusted oracle, cross-checked in spec selftest)"])


def replay(d):
    it = d['item']
    r = check_item(it)
    print(r)
    return r['status'] != 'violation'
