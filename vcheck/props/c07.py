from vcheck.props import c06


def run(tier, seed): return c06.run_for('C07', tier, seed)


def replay(d):
    r = c06.check_item(d['item']); print(r)
    return not any(v.get('prop') == 'C07' for v in r.get('violations', []))
