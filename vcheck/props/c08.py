"""C08 bounded part (symbolic-run where the family supports symbols): postconditions of Distribution.get_moment / get_support /
is_discrete / cf / mgf / mgf_exists_at on family D, against the judge's own tables (spec/lang.py std_moment + location/scale algebra,
written from the defining sums/integrals), and of the DistTransformer location/scale rewrites against the source semantics."""
import hashlib, random, itertools, json
import sympy as sp
from vcheck import common, judge, pool
from vcheck.props.c01 import summarise
from spec import lang, flat

t = sp.Symbol('t')


def true_moment(family, params, k):
    P = [lang.parse_arith(p) for p in params]
    atoms = {}
    r = lang.draw_value(family, P, atoms)
    if isinstance(r, list):
        return sp.expand(sum(q * (v ** k if k > 0 else 1) for v, q in r))
    sem = lang.Sem(lang.Program({}, [], lang.CBool(True), []))
    sem.atoms = atoms
    return sem.atom_expect(sp.expand(r ** k))


def true_support(family, params):
    P = [lang.parse_arith(p) for p in params]
    oo = sp.oo
    if family == 'Bernoulli': return dict(points=[0, 1])
    if family == 'Categorical': return dict(points=list(range(len(P))))
    if family == 'DiscreteUniform': return dict(points=list(range(int(P[0]), int(P[1]) + 1)))
    if family == 'Normal' or family == 'Laplace': return dict(interval=(-oo, oo))
    if family == 'Uniform': return dict(interval=(P[0], P[1]))
    if family in ('DistExp', 'Gamma'): return dict(interval=(0, oo))
    if family == 'Beta': return dict(interval=(0, P[2] if len(P) > 2 else 1))
    if family == 'TruncNormal': return dict(interval=(P[2], P[3]))


GRID = {
    'Bernoulli': [['1/2'], ['1/3'], ['0.25'], ['p'], ['1'], ['0']],
    'Categorical': [['1/2', '1/2'], ['1/4', '1/4', '1/2'], ['0.1', '0.2', '0.7'], ['p', '1-p'], ['1/5', '1/5', '1/5', '1/5', '1/5']],
    'DiscreteUniform': [['0', '1'], ['1', '4'], ['-2', '2'], ['3', '3'], ['-3', '-1']],
    'Normal': [['0', '1'], ['2', '4'], ['-1', '1/4'], ['0.5', '2.25'], ['m', '1'], ['m', 's**2'], ['0', '9']],
    'Uniform': [['0', '1'], ['-1', '3'], ['1/2', '5/2'], ['a', 'b'], ['0.5', '1.5']],
    'Laplace': [['0', '1'], ['1', '2'], ['-2', '1/2'], ['m', '3']],
    'DistExp': [['1'], ['2'], ['1/3'], ['0.5'], ['l']],
    'Gamma': [['1', '1'], ['2', '3'], ['3', '1/2'], ['5/2', '2']],
    'Beta': [['1', '1'], ['2', '3'], ['2', '5', '4'], ['1/2', '1/2'], ['3', '2', '1/2']],
    'TruncNormal': [['0', '1', '-1', '1'], ['5', '4', '4', '6'], ['1', '2', '0', '3']],
}


def items(tier, seed):
    kmax = 6 if tier == 'quick' else 10
    its = []
    grid_all = {k: list(v) for k, v in GRID.items()}
    if tier != 'quick':
        # seeded random rational parameter vectors inside each family's domain
        rnd = random.Random(8000 + seed)
        fr = lambda lo, hi: str(sp.Rational(rnd.randint(lo * 4, hi * 4), 4))
        pos = lambda: str(sp.Rational(rnd.randint(1, 16), 4))
        for _ in range(4):
            p_ = sp.Rational(rnd.randint(1, 9), 10)
            grid_all['Bernoulli'].append([str(p_)])
            a_ = rnd.randint(-4, 3); grid_all['DiscreteUniform'].append([str(a_), str(a_ + rnd.randint(0, 5))])
            grid_all['Normal'].append([fr(-3, 3), pos()])
            lo = sp.Rational(rnd.randint(-12, 12), 4); grid_all['Uniform'].append([str(lo), str(lo + sp.Rational(rnd.randint(1, 16), 4))])
            grid_all['Laplace'].append([fr(-3, 3), pos()])
            grid_all['DistExp'].append([pos()])
            grid_all['Gamma'].append([str(rnd.randint(1, 5)), pos()])
            grid_all['Beta'].append([str(rnd.randint(1, 4)), str(rnd.randint(1, 4))])
            w = [rnd.randint(1, 5) for _ in range(rnd.randint(2, 4))]
            grid_all['Categorical'].append([str(sp.Rational(x, sum(w))) for x in w])
    for fam, grid in grid_all.items():
        for ps in grid:
            symbolic = any(any(ch.isalpha() for ch in p) for p in ps)
            its.append(dict(name=f'{fam}({",".join(ps)})', kind='dist', family=fam, params=ps, ks=list(range(0, kmax + 1)),
                            transforms=True, kt=2 if tier == 'quick' else 4, symbolic=symbolic, budget=100 if tier == 'quick' else 300,
                            mgf_at=['1/2', '1', '2', '3', '-1', '-3']))
    for n, src, var in REWRITES:
        its.append(dict(name=n, kind='rewrite', src=src, var=var, budget=60))
    for it in its: it['src'] = it.get('src') or it['name']
    return its


REWRITES = [
("normal_loc_scale", """x = 1 {1/2} 3
u = 0
while true:
    u = Normal(2*x + 1, 4)
    x = 1 {1/2} 3
end""", 'u'),
("normal_var_scale", """x = 1 {1/2} 3
u = 0
while true:
    u = Normal(x, 9)
    x = x + 1 {1/2} x
end""", 'u'),
("uniform_both", """x = 0 {1/2} 2
u = 0
while true:
    u = Uniform(x - 1, 2*x + 3)
    x = 0 {1/2} 2
end""", 'u'),
("laplace_loc", """x = 0 {1/3} 5
u = 0
while true:
    u = Laplace(x - 1, 2)
    x = 0 {1/3} 5
end""", 'u'),
("exp_rate", """x = 1 {1/2} 3
u = 0
while true:
    u = DistExp(1/(x + 1))
    x = 1 {1/2} 3
end""", 'u'),
("exp_rate2", """x = 1 {1/2} 3
u = 0
while true:
    u = DistExp(2/x)
    x = 1 {1/2} 3
end""", 'u'),
]


def check_rewrite(it):
    st, out = common.run_probe('analyze.py', dict(src=it['src'], goals=[], snapshots=True), timeout=it['budget'])
    if st == 'timeout': return dict(status='skipped', why='probe budget exceeded')
    if st != 'ok' or 'probe_error' in out: return dict(status='machinery-error', why=str(out))
    if 'parse_error' in out: return dict(status='refused', why=str(out['parse_error']))
    u = sp.Symbol(it['var']); x = sp.Symbol('x')
    monos = [u, u ** 2, u ** 3, u ** 4, u * x, u ** 2 * x]
    ref = lang.expected_values(it['src'], monos, 2)
    snap = [p for p in out['passes'] if p['name'] == 'DistTransformer']
    if not snap: return dict(status='refused', why='no DistTransformer snapshot: ' + str(out.get('normalize_error')))
    pj = snap[0]['program']
    sem = flat.FlatSem(pj); ws = sem.init_worlds()
    viol, checked = [], 0
    for n in range(3):
        for m in monos:
            got = sem.expect(m, ws); checked += 1
            ok, _ = judge.is_zero(got - ref[m][n])
            if not ok:
                viol.append(dict(goal=str(m), n=n, observed=str(got), expected=str(ref[m][n]))); break
        if viol: break
        ws = sem.iterate(ws)
    return dict(status='violation' if viol else 'ok', checked=checked, violations=viol, nontrivial=True)


def check_item(it):
    if it['kind'] == 'rewrite': return check_rewrite(it)
    st, out = common.run_probe('dist.py', dict(cases=[dict(family=it['family'], params=it['params'], ks=it['ks'], transforms=it['transforms'],
                                                            mgf_at=it['mgf_at'])]), timeout=it['budget'])
    if st == 'timeout': return dict(status='skipped', why='probe budget exceeded')
    if st != 'ok' or 'probe_error' in out: return dict(status='machinery-error', why=str(out))
    r = out['results'][0]
    if 'construct_error' in r: return dict(status='refused', why=str(r['construct_error']))
    fam, ps = it['family'], it['params']
    viol, checked = [], 0
    numeric = fam == 'TruncNormal'
    truth = {}
    for k in it['ks']:
        if str(k) not in r['moments']: continue          # refusal (e.g. symbolic parameters not supported) is allowed
        got = judge.from_srepr(r['moments'][str(k)])
        exp_ = true_moment(fam, ps, k); truth[k] = exp_
        checked += 1
        if numeric:
            ok = abs(sp.N(got - exp_, 30)) < sp.Float('1e-9') * (1 + abs(sp.N(exp_, 30)))
        else:
            ok, _ = judge.is_zero(sp.simplify(got - exp_))
        if not ok: viol.append(dict(goal=f'moment k={k}', n=k, observed=str(got), expected=str(exp_)))
    # support / discreteness
    ts = true_support(fam, ps)
    if 'support' in r:
        checked += 1
        want_discrete = 'points' in ts
        if r['discrete'] != want_discrete:
            viol.append(dict(goal='is_discrete', n=None, observed=str(r['discrete']), expected=str(want_discrete)))
        sup = r['support']
        if 'points' in ts:
            pts = {judge.from_srepr(x) for x in sup if not isinstance(x, list)}
            ivs = [(judge.from_srepr(x[0]), judge.from_srepr(x[1])) for x in sup if isinstance(x, list)]
            for p in ts['points']:
                if sp.Integer(p) not in pts and not any(lo <= p <= hi for lo, hi in ivs):
                    viol.append(dict(goal='support', n=None, observed=str(sup), expected=f'contains {p}')); break
        else:
            lo, hi = ts['interval']
            ivs = [(judge.from_srepr(x[0]), judge.from_srepr(x[1])) for x in sup if isinstance(x, list)]
            okc = False
            for a, b in ivs:
                d1, d2 = sp.simplify(a - lo), sp.simplify(hi - b)
                if (d1 == 0 or d1.is_nonpositive or a == -sp.oo) and (d2 == 0 or d2.is_nonpositive or b == sp.oo): okc = True
            if not okc: viol.append(dict(goal='support', n=None, observed=str(sup), expected=f'contains [{lo},{hi}]'))
    # transforms: k-th derivative at 0 gives the k-th moment
    if not it['symbolic'] and not numeric:
        for name, fac in (('mgf', 1), ('cf', -sp.I)):
            txt = r.get(name)
            if not txt: continue
            f = judge.from_srepr(txt)
            for k in range(0, it['kt'] + 1):
                if k not in truth: continue
                try:
                    dk = sp.diff(f, t, k) if k else f
                    v = sp.limit(dk, t, 0)
                    v = sp.simplify(fac ** k * v)
                except Exception as ex:
                    continue
                if v.has(sp.Limit) or v.has(sp.Piecewise) or v.free_symbols or not v.is_number:
                    # sympy could not evaluate the limit: decide numerically just off the singularity (60 digits, |t| = 1e-12)
                    try:
                        pts = [sp.N((fac ** k * dk).subs(t, sp.Rational(sgn, 10 ** 12)), 60) for sgn in (1, -1)]
                        v = (pts[0] + pts[1]) / 2
                        if abs(v - sp.N(truth[k], 60)) > sp.Float('1e-6') * (1 + abs(sp.N(truth[k], 30))):
                            viol.append(dict(goal=f'{name} derivative k={k}', n=k, observed=str(sp.N(v, 15)), expected=str(truth[k]))); break
                        checked += 1
                    except Exception:
                        pass
                    continue
                checked += 1
                ok, _ = judge.is_zero(sp.simplify(v - truth[k]))
                if not ok: viol.append(dict(goal=f'{name} derivative k={k}', n=k, observed=str(v), expected=str(truth[k]))); break
    # mgf existence predicate: true => inside the convergence strip
    if not it['symbolic']:
        P = [lang.parse_arith(p) for p in ps]
        strip = {'DistExp': lambda tv: tv < P[0], 'Gamma': lambda tv: tv < 1 / P[1], 'Laplace': lambda tv: abs(tv) < 1 / P[1]}.get(fam)
        for tv, ans in (r.get('mgf_exists') or {}).items():
            if ans is None: continue
            tvv = sp.Rational(tv); checked += 1
            inside = bool(strip(tvv)) if strip else True
            if ans and not inside:
                viol.append(dict(goal=f'mgf_exists_at({tv})', n=None, observed='True', expected='False (outside the convergence strip)'))
            if strip is None and not ans:
                viol.append(dict(goal=f'mgf_exists_at({tv})', n=None, observed='False', expected='True (mgf exists everywhere)'))
    return dict(status='violation' if viol else 'ok', checked=checked, violations=viol, nontrivial=checked >= 5, errors=r.get('errors'))


def key_of(it, v):
    return f"C08:{it['name']}:{v['goal']}"


def run(tier, seed):
    its = items(tier, seed)
    res = pool.run_items(check_item, its, budget=200 if tier == 'quick' else 600)
    r = summarise('C08', its, res, tier, keyfn=key_of,
                  rule="one case per (family, parameter vector, order k / transform derivative / support / discreteness / mgf existence point) and per "
                       "location-scale rewrite program; non-trivial = >= 5 cases decided for the item; distinct by (family, parameters)",
                  explanation="Bounded part: the real distribution classes are called on a parameter grid (rational, decimal literal, symbolic where the "
                              "family supports it) for orders k = 0..6 (quick) / 0..10 (thorough); results are compared exactly with the judge's own "
                              "tables written from the defining sums/integrals (TruncNormal: 30-digit quadrature, tolerance 1e-9 since it is float-based by "
                              "design); k-th derivatives of mgf/cf at 0 must equal the same moments; support must contain the true support; "
                              "mgf_exists_at must not claim existence outside the convergence strip; DistTransformer rewrites are compared with the "
                              "source semantics through joint moments up to degree 4.")
    for v in r['violations']:
        d = v['detail']
        v['what'] = f"{v['item']['name']}: {d['goal']}: Polar {d['observed']} expected {d['expected']}"[:300]
    return r


def replay(d):
    r = check_item(d['item']); print(r); return r['status'] != 'violation'
