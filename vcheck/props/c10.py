"""C10 bounded part: postcondition of the two sensitivity methods (real CLI: --sensitivity_analysis / --sensitivity_analysis_diff):
   printed d/dp E(M)(n) == d/dp of the exact expectation from the independent semantics (symbolic in p), for n <= N, exactly;
   the two methods agree wherever both succeed."""
import hashlib, re
import sympy as sp
from vcheck import common, judge, pool
from vcheck.props.c01 import summarise
from spec import lang

PROGRAMS = [
("init_random_param", "x = Bernoulli(p)\nwhile true:\n    x = x + 1 {1/2} x\nend", 'p', ['x', 'x**2', 'x**3']),      # the parameter enters through a RANDOM initial value: d/dp E(x0**k) != d/dp E(x0)**k
("prob_param", "x = 0\nwhile true:\n    x = x + 1 {p} x - 1\nend", 'p', ['x', 'x**2']),
("coef_param", "x = 1\ny = 0\nwhile true:\n    x = a*x + 1\n    y = y + x {1/2} y\nend", 'a', ['x', 'y', 'x*y']),
("init_param", "x = c\ny = 1\nwhile true:\n    y = y + x**2\n    x = x + 1 {1/2} x\nend", 'c', ['x', 'y']),
("dist_param", "s = 0\nwhile true:\n    u = Normal(m, 1)\n    s = s + u**2\nend", 'm', ['s', 's**2', 'u']),
("chain_against_order", "a, b, c = 0, 0, 1\nwhile true:\n    a = a + b\n    b = b + 2*c {1/2} b\n    c = c + p {1/3} c - 1\nend", 'p', ['a', 'b', 'c', 'a*c']),
("both_prob_coef", "x = 0\ny = 0\nwhile true:\n    x = p*x + 1 {p} x\n    y = y + x\nend", 'p', ['x', 'y']),
("mixed_dep_indep", "x = 0\nz = 0\nwhile true:\n    z = z + 1 {1/2} z\n    x = x + q {1/2} x - 1\nend", 'q', ['x*z', 'x', 'z']),
("bern_param", "k = 0\nwhile true:\n    d = Bernoulli(p)\n    k = k + d\nend", 'p', ['k', 'k**2']),
("two_params", "x = 0\nwhile true:\n    x = x + a {b} x\nend", 'b', ['x', 'x**2']),
("guarded_param", "g = 1\nt = 0\nwhile g == 1:\n    g = Bernoulli(1/2)\n    t = t + r\nend", 'r', ['t']),
("if_param", "f = 0\nx = 0\nwhile true:\n    f = Bernoulli(1/2)\n    if f == 1:\n        x = x + w\n    else:\n        x = 2*x {w} x\n    end\nend", 'w', ['x']),
]


def items(tier, seed):
    its = [dict(name=n, src=s, param=p, goals=g, nmax=5 if tier == 'quick' else 8, budget=120 if tier == 'quick' else 400) for n, s, p, g in PROGRAMS]
    if tier != 'quick':
        # generated programs of family G that mention a symbolic parameter p or q: first and second moments of up to two variables
        from spec import gen
        k = 0
        for n, src, vs in gen.family(31000 + seed, 600, allow_params=True):
            par = next((q for q in ('p', 'q') if re.search(r'(?<![A-Za-z0-9_])%s(?![A-Za-z0-9_])' % q, src)), None)
            if par is None or not vs: continue
            goals = [str(v) for v in vs[:2]] + [f'{vs[0]}**2']
            its.append(dict(name='gen_' + n, src=src, param=par, goals=goals, nmax=4, budget=200)); k += 1
            if k >= 60: break
    return its


def printed_sens(so):
    out = {}
    for line in so.splitlines():
        mm = re.match(r'^∂(?:E\((.*?)\)|([A-Za-z_][\w*]*)) = (.*)$', line.strip())
        if mm and '|' not in (mm.group(1) or mm.group(2)):
            out[(mm.group(1) or mm.group(2)).replace(' ', '')] = mm.group(3)
    return out


def check_item(it):
    p = sp.Symbol(it['param'])
    monos = [lang.parse_arith(g) for g in it['goals']]
    try:
        spec = lang.expected_values(it['src'], monos, it['nmax'], seconds=30)
    except lang.Unsupported as ex:
        return dict(status='skipped', why=f'oracle: {ex}')
    nreach = len(spec[monos[0]]) - 1
    viol, checked = [], 0
    results = {}
    for flag in ('--sensitivity_analysis', '--sensitivity_analysis_diff'):
        st, so, se = common.run_cli(it['src'], [flag, it['param'], '--goals'] + [f'E({g})' for g in it['goals']], timeout=it['budget'])
        if st == 'timeout': continue
        if st != 'ok': results[flag] = None; continue
        results[flag] = printed_sens(so)
    if not any(results.get(f) for f in results): return dict(status='refused', why='both sensitivity methods refused or timed out')
    for flag, pr in results.items():
        if not pr: continue
        for g, m in zip(it['goals'], monos):
            key = g.replace(' ', '')
            if key not in pr: continue
            sp_, gen_ = common.parse_printed(pr[key])
            for n in range(nreach + 1):
                got = common.printed_at(sp_, gen_, n)
                want = sp.diff(spec[m][n], p); checked += 1
                ok, _ = judge.is_zero(sp.simplify(got - want))
                if not ok:
                    viol.append(dict(goal=f'{flag[2:]} dE({g})/d{it["param"]}', n=n, observed=str(got), expected=str(sp.expand(want)))); break
    return dict(status='violation' if viol else 'ok', checked=checked, violations=viol, nontrivial=checked >= 6,
                methods={f: (sorted(v) if v else None) for f, v in results.items()})


def key_of(it, v):
    h = hashlib.sha1(it['src'].encode()).hexdigest()[:10]
    return f"C10:{h}:{it['name']}:{v['goal']}"


def run(tier, seed):
    its = items(tier, seed)
    res = pool.run_items(check_item, its, budget=400)
    r = summarise('C10', its, res, tier, keyfn=key_of,
                  rule="one case per (program, parameter, sensitivity method, goal, n <= N); programs with the parameter in a probability, a coefficient, an "
                       "initial value, a distribution parameter, both probability and coefficient, chains against program order, mixed dependent/independent "
                       "products, under a guard and under a branch; non-trivial = >= 6 cases decided; distinct by program text",
                  explanation="Bounded part: both sensitivity methods of the real CLI against d/dp of the exact expectation computed symbolically in p by the "
                              "independent semantics, at n <= 5 (quick) / 8 (thorough), exact. Bounded in programs and n; never counted as proved.")
    for v in r['violations']:
        d = v['detail']
        v['what'] = f"{v['item']['name']}: {d['goal']} n={d.get('n')}: Polar {d['observed']} expected {d['expected']}"[:300]
    return r


def replay(d):
    r = check_item(d['item']); print(r); return r['status'] != 'violation'
