"""judge-side helpers (python3-vt, sympy 1.14; never imports Polar)."""
import sympy as sp
from sympy import *      # noqa: constructors for srepr evaluation
import sympy

_NS = {k: getattr(sympy, k) for k in dir(sympy) if not k.startswith('_')}
from sympy.functions.elementary.piecewise import ExprCondPair
_NS['ExprCondPair'] = ExprCondPair
N_INT = sp.Symbol('n', integer=True)
N_PLAIN = sp.Symbol('n')


def from_srepr(text):
    return eval(text, dict(_NS))


def at_n(expr, k):
    """value of a closed form (Piecewise in n) at the iteration count k"""
    r = expr.xreplace({N_INT: sp.Integer(k), N_PLAIN: sp.Integer(k)})
    if r.has(sp.Piecewise): r = sp.piecewise_fold(r)
    return r


def is_zero(d, digits=60):
    """exact decision where sympy can; 60-digit numeric agreement otherwise (reported as numeric)"""
    d = sp.expand(d)
    if d == 0: return True, 'exact'
    if d.free_symbols:
        c = sp.cancel(sp.together(d))
        if c == 0: return True, 'exact'
        c2 = sp.simplify(c)
        if c2 == 0: return True, 'exact'
        # random rational points
        import random
        rnd = random.Random(1)
        for _ in range(3):
            pt = {s: sp.Rational(rnd.randint(2, 50), rnd.randint(51, 97)) for s in d.free_symbols}
            v = d.xreplace(pt)
            ok, how = is_zero(v, digits)
            if not ok: return False, 'point'
        return True, 'random-points'
    if d.is_Rational: return False, 'exact'
    try:
        e = d.equals(0)
        if e is True: return True, 'exact'
        if e is False: return False, 'exact'
    except Exception:
        pass
    v = sp.N(d, digits)
    return abs(v) < sp.Float(10) ** (-(digits - 15)), 'numeric'


def monos_upto(vars_, deg):
    """all monomials of total degree 1..deg over the given symbols"""
    import itertools
    out = []
    for d in range(1, deg + 1):
        for comb in itertools.combinations_with_replacement(vars_, d):
            out.append(sp.Mul(*comb))
    return out
