#!/bin/bash
# usage: tools/run_seed.sh <seed-id> <PID> [<PID>...]   applies seeded/<id>/patch.diff to /repo, runs the checks, restores /repo
ID="$1"; shift
cd /verif
[ -z "$(git -C /repo status --porcelain)" ] || { echo "/repo not clean"; exit 2; }
git -C /repo apply "/verif/seeded/$ID/patch.diff" || exit 2
for P in "$@"; do
  ./check "$P" --tier quick > "/tmp/seedrun_${ID}_$P.log" 2>&1; rc=$?
  echo "seed=$ID check=$P exit=$rc $(grep -c '^VIOLATION' /tmp/seedrun_${ID}_$P.log) violation lines"
  grep '^VIOLATION' "/tmp/seedrun_${ID}_$P.log" | head -3 | cut -c1-260
done
git -C /repo checkout -- .
