#!/bin/bash
# usage: tools/confirm_seed.sh <worktree> <patch> <demo-relative-path> <seed-id>
# Confirms a seeded breakage in a scratch worktree: demo fails with the patch, passes without, pinned suite passes with it.
WT="$1"; PATCH="$2"; DEMO="$3"; ID="$4"
OUT=/verif/seeded/$ID; mkdir -p "$OUT"
cd "$WT" || exit 2
git checkout -q -- . 2>/dev/null
cp "$WT/$DEMO" /tmp/demo_$ID.py 2>/dev/null
/venv/bin/python "$DEMO" > "$OUT/demo_without.log" 2>&1; rc0=$?
git apply "$PATCH" || { echo "patch does not apply"; exit 2; }
/venv/bin/python "$DEMO" > "$OUT/demo_with.log" 2>&1; rc1=$?
/verif/tools/baseline.sh "$WT" > "$OUT/suite_with.log" 2>&1; rcs=$?
cp "$PATCH" "$OUT/patch.diff"; cp "$WT/$DEMO" "$OUT/"
echo "demo without patch: exit $rc0 (want 0); with patch: exit $rc1 (want 1); suite with patch: exit $rcs (want 0)" | tee "$OUT/confirm.txt"
tail -1 "$OUT/suite_with.log"
