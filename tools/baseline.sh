#!/bin/bash
# Runs the repository's pinned test suite (hooks guard OFF) and compares with BASELINE.json's stable_pass list.
# usage: tools/baseline.sh [repo_dir]   exit 0 iff every stable_pass test passes.
REPO_DIR="${1:-/repo}"
OUT=$(mktemp /tmp/junit.XXXXXX.xml)
unset POLAR_VERIF
cd "$REPO_DIR" && /venv/bin/python -m pytest -q -p no:cacheprovider --timeout=900 --continue-on-collection-errors --junitxml="$OUT" >/dev/null 2>&1
python3 - "$OUT" <<'PY'
import sys, json, xml.etree.ElementTree as ET
b = json.load(open('/root/.vp/BASELINE.json'))
passed = set()
for tc in ET.parse(sys.argv[1]).getroot().iter('testcase'):
    if not any(ch.tag in ('failure', 'error', 'skipped') for ch in tc):
        passed.add(f"{tc.get('classname')}::{tc.get('name')}")
missing = [t for t in b['stable_pass'] if t not in passed]
print(f"baseline: {len(b['stable_pass']) - len(missing)}/{len(b['stable_pass'])} stable tests pass")
for m in missing: print('  MISSING', m)
sys.exit(1 if missing else 0)
PY
rc=$?; rm -f "$OUT"; exit $rc
