#!/bin/bash
# tier-V only: every seeded change against the contracts of its property, in a scratch worktree (never touches /repo's working tree)
cd /verif
for d in seeded/C*/; do
  id=$(basename $d); pid=${id%%-*}
  wt=/tmp/wt_seed_$id
  rm -rf $wt; git -C /repo worktree add -q --detach $wt HEAD || continue
  if git -C $wt apply /verif/$d/patch.diff; then
    echo "== $id"
    POLAR_REPO=$wt python3-vt -m pyvc --prop $pid 2>&1 | grep -v "^OK" | cut -c1-260
  else echo "== $id: patch does not apply"; fi
  git -C /repo worktree remove --force $wt
done
