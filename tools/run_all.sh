#!/bin/bash
# runs every registered quick check once, prints one line per property
cd /verif
for p in $(python3 -c "import json; print(' '.join(c['property_id'] for c in json.load(open('MANIFEST.json'))['checks']))"); do
  s=$(date +%s); ./check $p --tier ${1:-quick} $2 > /tmp/all_$p.log 2>&1; rc=$?; e=$(date +%s)
  echo "$p exit=$rc $((e-s))s $(grep -c '^VIOLATION' /tmp/all_$p.log) violations :: $(tail -1 /tmp/all_$p.log | cut -c1-160)"
done
