#!/usr/bin/env python3
"""Regenerates MANIFEST.json from the table below (kept in one place so it stays valid and current)."""
import json, os
HERE = os.path.dirname(os.path.dirname(os.path.abspath(__file__)))
props = [json.loads(l) for l in open(os.path.join(HERE, 'properties.jsonl'))]
ids = [p['id'] for p in props]

# pid -> (technique, level text, level note)
CLAIMED = json.load(open(os.path.join(HERE, 'tools', 'claims.json')))
NA = json.load(open(os.path.join(HERE, 'tools', 'not_applicable.json')))

checks = []
for pid in ids:
    if pid not in CLAIMED: continue
    c = CLAIMED[pid]
    checks.append(dict(
        property_id=pid,
        quick_cmd=f"./check {pid} --tier quick",
        thorough_cmd=f"./check {pid} --tier thorough",
        evidence_file=f"/verif/evidence/{pid}.json",
        replay_cmd_template=f"./check {pid} --replay {{path}}",
        engine="pyvc+judge",
        level_claimed=dict(category=c.get('category', 'other'), text=c['text'], design_ref=c.get('design_ref', f'DESIGN.md §3 {pid}')),
        level_note=c['note'],
        technique=c['technique'],
    ))
na = [dict(property_id=p, reason=NA[p]) for p in ids if p not in CLAIMED]
assert all(p in NA for p in ids if p not in CLAIMED), [p for p in ids if p not in CLAIMED and p not in NA]
m = dict(
    version=1,
    setup_cmd="./setup.sh",
    hooks=dict(guard="POLAR_VERIF", enable="no source hooks: checks read /repo's working tree directly (env POLAR_VERIF=1 is set by ./check but nothing in /repo reads it)",
               baseline_off_cmd="cd /repo && /venv/bin/python -m pytest -ra -q -p no:cacheprovider --timeout=900 --continue-on-collection-errors",
               source_commits=[], add_only=True),
    engines=[dict(name="pyvc", path="/verif/pyvc", serves_properties=sorted(CLAIMED),
                  kind_free_text="contract-based deductive verification: sidecar contracts (pre/post/loop invariants/callee contracts) on the real "
                                 "/repo functions; VCs regenerated from the current source AST on every run, discharged by z3 (cvc5 fallback)"),
             dict(name="judge", path="/verif/vcheck", serves_properties=sorted(CLAIMED),
                  kind_free_text="certificate postconditions and bounded contract checks: probe runs the real Polar (/venv), judge (python3-vt, never "
                                 "imports Polar) evaluates spec functions written from the property statements; labelled bounded, never counted as proved")],
    checks=checks,
    not_applicable=na,
    notes="See DESIGN.md. No property is claimed at level 'proof': deductive obligations cover the named functions for all inputs; the rest of each "
          "property is decided by bounded contract checks and is labelled so in the evidence.",
)
json.dump(m, open(os.path.join(HERE, 'MANIFEST.json'), 'w'), indent=1)
print('claimed', len(checks), 'not_applicable', len(na))
