"""regenerate obligations.lock.json from the current tree: every obligation that is discharged now (tier V only, no bounded part)"""
import json, os, sys
HERE = os.path.dirname(os.path.dirname(os.path.abspath(__file__)))
sys.path.insert(0, HERE)
from pyvc import verify as V
V.load_contracts()
recs = V.verify_many(list(V.REGISTRY))
lock = {}
bad = 0
for r in recs:
    if r['status'] != 'ok':
        print('NOT LOCKED', r['name'], r['status'], r.get('reason')); bad += 1; continue
    lock[r['name']] = [o['name'] for o in r['obligations'] if o['verdict'] == 'discharged']
    for o in r['obligations']:
        if o['verdict'] != 'discharged': print('NOT DISCHARGED', r['name'], o['name'], o['verdict']); bad += 1
json.dump(lock, open(os.path.join(HERE, 'obligations.lock.json'), 'w'), indent=1, sort_keys=True)
print(f'{len(lock)} functions, {sum(len(v) for v in lock.values())} obligations locked; {bad} problems')
sys.exit(1 if bad else 0)
