#!/bin/bash
# Runs every seeded change against the check of its property (and listed extra checks) and records which tier reported it.
cd /verif
out=seeded/MATRIX.md
echo "| seed | check | exit | deductive (obligation) lines | bounded lines | notes |" > $out
echo "|---|---|---|---|---|---|" >> $out
for d in seeded/*/; do
  id=$(basename $d)
  [ -f $d/patch.diff ] || continue
  pids=$(python3 -c "import json, os; m=json.load(open('$d/meta.json')); print(' '.join([m['property']] + ([] if os.environ.get('MATRIX_OWN_ONLY') else [p for p in m.get('also_breaks', []) if p != m['property']])))")
  [ -z "$(git -C /repo status --porcelain)" ] || { echo "/repo not clean"; exit 2; }
  git -C /repo apply /verif/$d/patch.diff || { echo "| $id | - | patch does not apply | | | |" >> $out; continue; }
  for p in $pids; do
    ./check $p --tier quick > /tmp/matrix_${id}_$p.log 2>&1; rc=$?
    v=$(grep -c '^VIOLATION.*:: obligation' /tmp/matrix_${id}_$p.log)
    b=$(grep '^VIOLATION' /tmp/matrix_${id}_$p.log | grep -vc ':: obligation')
    n=$(grep -c '^NOTE \(OUT-OF-REACH\|UNDECIDED\|ENGINE\)' /tmp/matrix_${id}_$p.log)
    first=$(grep '^VIOLATION.*:: obligation' /tmp/matrix_${id}_$p.log | head -1 | sed 's/.*:: obligation //' | cut -c1-90)
    echo "| $id | $p | $rc | $v $first | $b | $n notes |" >> $out
  done
  git -C /repo checkout -- .
done
cat $out
