#!/bin/bash
# offline setup: nothing to build; sanity-check the tool chain the checks need
cd "$(dirname "$0")"
python3-vt -c "import z3, sympy, mpmath; print('judge venv ok: z3', z3.get_version_string(), 'sympy', sympy.__version__)" || exit 1
/venv/bin/python -c "import sys; sys.path.insert(0,'/repo'); import symengine, sympy, lark; print('probe venv ok')" || exit 1
mkdir -p evidence replays
exit 0
