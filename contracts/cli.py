"""Sidecar contracts: cli/actions/goals_action.py (C20): the state one GoalsAction object carries from one benchmark file to the next."""
import z3
from pyvc.core import *
from pyvc.verify import contract

F = 'cli/actions/goals_action.py'


@contract(F, 'GoalsAction.initialize_program', ['C20'])
def initialize_program(cx):
    """every per-program field of the action object is re-initialised for the next benchmark: program, recurrence builder and an EMPTY solver
    cache (solvers are keyed by monomial: a cache surviving from another program would answer with that program's closed forms)."""
    old_solvers = cx.map('old_solvers', DRef(), DRef())
    me = cx.obj('GoalsAction', cli_args=cx.ref('cli_args'), program=cx.ref('old_program'), rec_builder=cx.ref('old_rec_builder'), solvers=old_solvers)
    prog, rb = cx.ref('program'), cx.ref('rec_builder')
    cx.param(self=me, program=prog, rec_builder=rb)

    def post(st, r):
        h = st.heap[me.t]
        s = h['solvers']
        empty = z3.BoolVal(True) if s.get('empty') else (z3.BoolVal(False) if s.kind != 'map' else z3.ForAll([z3.Const('k', REF)], z3.Not(z3.Select(s.t[1], z3.Const('k', REF)))))
        return z3.And(empty, h['program'].t == prog.t, h['rec_builder'].t == rb.t)
    cx.ensures(post)


@contract(F, 'GoalsAction.parse_goals', ['C20'])
def parse_goals(cx):
    """frame: the parsed command line (one object shared by all benchmark files of a run) is not written; the goals are the given ones, or --
    with --invariants and no goals -- one E(v) per original variable of THIS program."""
    goals = cx.seq('goals', DS); inv = cx.bool('invariants'); ov = cx.seq('original_variables', DRef())
    args = cx.obj('Namespace', goals=goals, invariants=inv)
    me = cx.obj('GoalsAction', cli_args=args, program=cx.obj('Program', original_variables=ov))
    cx.param(self=me)
    PARSE = z3.Function('GoalParser_parse', S, REF); EOF = z3.Function('E_of', REF, S)
    cx.call('GoalParser.parse', lambda ex, st, r, a, kw: V('ref', PARSE(a[0].t)), trusted='GoalParser.parse (C11 bounded check)')
    cx.set_hook('fstring_text', lambda ex, st, x, src: None)
    cx.set_hook('empty_kinds', {'goals': DSeq(DRef())})
    j = z3.Int('j')

    def frame(st):
        h = st.heap[args.t]
        return z3.And(h['goals'].kind == 'seq' and h['goals'].t.eq(goals.t), h['invariants'].t.eq(inv.t))
    cx.invariant(0, lambda st: z3.BoolVal(bool(frame(st))) if isinstance(frame(st), bool) else frame(st))
    cx.ensures(lambda st, r: frame(st))
