"""Sidecar contracts: cli/actions/goals_action.py (C20): the state one GoalsAction object carries from one benchmark file to the next."""
import z3
from pyvc.core import *
from pyvc.verify import contract

F = 'cli/actions/goals_action.py'


@contract(F, 'GoalsAction.initialize_program', ['C20'])
def initialize_program(cx):
    """every per-program field of the action object is re-initialised for the next benchmark: program, recurrence builder and an EMPTY solver
    cache (solvers are keyed by monomial: a cache surviving from another program would answer with that program's closed forms)."""
    old_solvers = cx.map('old_solvers', DRef(), DRef())
    me = cx.obj('GoalsAction', cli_args=cx.ref('cli_args'), program=cx.ref('old_program'), rec_builder=cx.ref('old_rec_builder'), solvers=old_solvers)
    prog, rb = cx.ref('program'), cx.ref('rec_builder')
    cx.param(self=me, program=prog, rec_builder=rb)

    def post(st, r):
        h = st.heap[me.t]
        s = h['solvers']
        empty = z3.BoolVal(True) if s.get('empty') else (z3.BoolVal(False) if s.kind != 'map' else z3.ForAll([z3.Const('k', REF)], z3.Not(z3.Select(s.t[1], z3.Const('k', REF)))))
        return z3.And(empty, h['program'].t == prog.t, h['rec_builder'].t == rb.t)
    cx.ensures(post)


@contract(F, 'GoalsAction.parse_goals', ['C20'])
def parse_goals(cx):
    """frame: the parsed command line (one object shared by all benchmark files of a run) is not written; the goals are the given ones, or --
    with --invariants and no goals -- one E(v) per original variable of THIS program."""
    goals = cx.seq('goals', DS); inv = cx.bool('invariants'); ov = cx.seq('original_variables', DRef())
    args = cx.obj('Namespace', goals=goals, invariants=inv)
    me = cx.obj('GoalsAction', cli_args=args, program=cx.obj('Program', original_variables=ov))
    cx.param(self=me)
    PARSE = z3.Function('GoalParser_parse', S, REF); EOF = z3.Function('E_of', REF, S)
    cx.call('GoalParser.parse', lambda ex, st, r, a, kw: V('ref', PARSE(a[0].t)), trusted='GoalParser.parse (C11 bounded check)')
    cx.set_hook('fstring_text', lambda ex, st, x, src: None)
    cx.set_hook('empty_kinds', {'goals': DSeq(DRef())})
    j = z3.Int('j')

    def frame(st):
        h = st.heap[args.t]
        return z3.And(h['goals'].kind == 'seq' and h['goals'].t.eq(goals.t), h['invariants'].t.eq(inv.t))
    cx.invariant(0, lambda st: z3.BoolVal(bool(frame(st))) if isinstance(frame(st), bool) else frame(st))
    cx.ensures(lambda st, r: frame(st))


FC = 'cli/common.py'
EXACT = z3.Function('solution_is_exact', R, B)        # the flag get_moment returns for a monomial
MOM = z3.Function('moment_of', R, R)


@contract(FC, 'get_moment_poly', ['C17', 'C11'])
def get_moment_poly(cx):
    """the moment of a polynomial is flagged exact only if the moment of EVERY monomial of its expansion is exact (one rounded closed form makes
    the whole result inexact); every monomial is solved through get_moment"""
    TS, mk, (acc_c, acc_m) = tuple_sort([DR, DR])
    monoms = cx.seq('monoms', DTuple(DR, DR)); poly = cx.real('poly')
    cx.param(poly=poly, solvers=cx.ref('solvers'), rec_builder=cx.ref('rec_builder'), cli_args=cx.ref('cli_args'), program=cx.ref('program'))
    cx.call('get_monoms', lambda ex, st, r, a, kw: monoms, trusted='get_monoms(expanded polynomial): its (coefficient, monomial) pairs')
    cx.call('get_moment', lambda ex, st, r, a, kw: VTuple(VR(MOM(toreal(a[0]))), VB(EXACT(toreal(a[0])))), trusted='get_moment (contract below)')
    cx.call('subs', lambda ex, st, r, a, kw: VR(z3.Real('substituted_polynomial')))
    cx.set_hook('empty_kinds', {'moments': V('map', (z3.K(R, z3.RealVal(0)), z3.K(R, z3.BoolVal(False))), kk=DR, vk=DR, size=None)})
    j = z3.Int('j')
    allexact = lambda upto: z3.ForAll([j], z3.Implies(z3.And(0 <= j, j < upto), EXACT(acc_m(monoms.t[j]))))
    cx.invariant(0, lambda st: st['is_exact_acc'].t == allexact(st['$i0'].t))
    cx.ensures(lambda st, r: r.t[1].t == allexact(z3.Length(monoms.t)))


@contract(FC, 'get_all_moments', ['C17', 'C11'])
def get_all_moments(cx):
    """raw moments 1..k of a monomial: moment i is the solution for monom**i, and the collection is flagged exact only if every one of them is"""
    mono = cx.real('monom'); k = cx.int('max_moment')
    cx.param(monom=mono, max_moment=k, solvers=cx.ref('solvers'), rec_builder=cx.ref('rec_builder'), cli_args=cx.ref('cli_args'), program=cx.ref('program'))
    cx.requires(k.t >= 0)
    PW = z3.Function('power_monomial', R, I, R)
    cx.set_hook('binop', lambda ex, st, op, a, b: VR(PW(toreal(a), toint(b))) if op == 'Pow' else None)
    cx.call('get_moment', lambda ex, st, r, a, kw: VTuple(VR(MOM(toreal(a[0]))), VB(EXACT(toreal(a[0])))), trusted='get_moment (contract below)')
    cx.set_hook('empty_kinds', {'moments': V('map', (z3.K(I, z3.RealVal(0)), z3.K(I, z3.BoolVal(False))), kk=DI, vk=DR, size=None)})
    j = z3.Int('j')

    def inv(st):       # reversed(range(1, k+1)): after g rounds the orders k, k-1, ..., k-g+1 are done
        g = st['$i0'].t; arr, dom = st['moments'].t
        done = lambda q: z3.And(k.t - g < q, q <= k.t)
        return z3.And(st['all_exact'].t == z3.ForAll([j], z3.Implies(done(j), EXACT(PW(mono.t, j)))),
                      z3.ForAll([j], z3.Implies(done(j), z3.And(z3.Select(dom, j), z3.Select(arr, j) == MOM(PW(mono.t, j))))))
    cx.invariant(0, inv)

    def post(st, r):
        arr, dom = r.t[0].t
        return z3.And(r.t[1].t == z3.ForAll([j], z3.Implies(z3.And(1 <= j, j <= k.t), EXACT(PW(mono.t, j)))),
                      z3.ForAll([j], z3.Implies(z3.And(1 <= j, j <= k.t), z3.And(z3.Select(dom, j), z3.Select(arr, j) == MOM(PW(mono.t, j))))))
    cx.ensures(post)


@contract(FC, 'get_moment', ['C20', 'C01'])
def get_moment_c(cx):
    """the closed form of a monomial comes from a solver that was built for a recurrence system CONTAINING that monomial: a cached solver is used
    only under the monomial's own key, and a new system's solver is registered under every monomial of that system (never under others)."""
    mono = cx.real('monom'); solvers = cx.map('solvers', DR, DRef('RecurrenceSolver'))
    SYS = z3.Function('system_of_solver', REF, REF); INSYS = z3.Function('monomial_in_system', REF, R, B)
    cx.param(monom=mono, solvers=solvers, rec_builder=cx.ref('rec_builder'), cli_args=cx.obj('Namespace', solvability_check=cx.bool('solvability_check')), program=cx.ref('program'))
    arr, dom = solvers.t
    mq = z3.Real('mq')
    # the cache invariant on entry: every cached solver was built for a system that contains its key
    cx.requires(z3.ForAll([mq], z3.Implies(z3.Select(dom, mq), INSYS(SYS(z3.Select(arr, mq)), mq))))
    cx.call('is_solvable', lambda ex, st, r, a, kw: VB(ex.fresh(B, 'solvable')))
    recs = z3.Const('new_system', REF); mons = cx.seq('monomials_of_new_system', DR)
    j = z3.Int('j')

    def get_recurrences(ex, st, r, a, kw):
        # RecBuilder.get_recurrences contract: the system has an equation for the goal monomial (closedness), and its monomial list is that of the system
        st.pc += [z3.ForAll([j], z3.Implies(z3.And(0 <= j, j < z3.Length(mons.t)), INSYS(recs, mons.t[j]))),
                  z3.Exists([j], z3.And(0 <= j, j < z3.Length(mons.t), mons.t[j] == toreal(a[0])))]
        return V('ref', recs)
    cx.call('get_recurrences', get_recurrences, trusted='RecBuilder.get_recurrences contract (contracts/rec_builder.py): closed system containing the goal monomial')
    cx.field('monomials', lambda ex, st, o: mons)
    new_solver = z3.Const('new_solver', REF)

    def solver(ex, st, r, a, kw):
        st.pc.append(SYS(new_solver) == a[0].t); return V('ref', new_solver)
    cx.call('RecurrenceSolver', solver)
    cx.call('sympify', lambda ex, st, r, a, kw: a[0])

    def update(ex, st, r, a, kw):
        d = a[0]
        if r.kind != 'map' or d.kind != 'dictcomp': raise OutOfReach('update')
        node = d.x['node']; src = d.x['src']
        if src.kind != 'seq' or not isinstance(node.generators[0].target, ast.Name): raise OutOfReach('update with another comprehension')
        # keys and values of the comprehension at an arbitrary position
        jj = ex.fresh(I, 'pos')
        cst = d.x['st'].fork(); cst.vars[node.generators[0].target.id] = src.x['ek'].wrap(src.t[jj])
        save = ex.dry; ex.dry += 1
        try: kv, vv = ex.ev(node.key, cst), ex.ev(node.value, cst)
        finally: ex.dry = save
        arr0, dom0 = r.t
        arr1 = ex.fresh(arr0.sort(), 'solvers_arr'); dom1 = ex.fresh(dom0.sort(), 'solvers_dom')
        inset = lambda x: z3.Exists([jj], z3.And(0 <= jj, jj < z3.Length(src.t), toreal(kv) == x))
        st.pc += [z3.ForAll([mq], z3.Select(dom1, mq) == z3.Or(z3.Select(dom0, mq), inset(mq))),
                  z3.ForAll([mq], z3.Implies(z3.And(z3.Select(dom0, mq), z3.Not(inset(mq))), z3.Select(arr1, mq) == z3.Select(arr0, mq))),
                  z3.ForAll([jj], z3.Implies(z3.And(0 <= jj, jj < z3.Length(src.t)), z3.Select(arr1, toreal(kv)) == vv.t))]
        st.vars['solvers'] = V('map', (arr1, dom1), kk=DR, vk=DRef(), size=None)
        return VNone()
    import ast
    cx.call('update', update, trusted='dict.update(mapping)')

    def get_solution(ex, st, r, a, kw):
        m = st['solvers']; a1, d1 = m.t
        ex.need(st, z3.And(z3.Select(d1, toreal(a[0])), INSYS(SYS(z3.Select(a1, toreal(a[0]))), toreal(a[0]))), 'solution.from-a-solver-of-a-system-containing-the-monomial@0', 'ensures')
        return VTuple(VR(MOM(toreal(a[0]))), VB(EXACT(toreal(a[0]))))
    cx.call('get_solution', get_solution, trusted='RecBuilder.get_solution(monom, solvers): solvers[monom].get(monom)')

    def post(st, r):
        a1, d1 = st['solvers'].t
        return z3.ForAll([mq], z3.Implies(z3.Select(d1, mq), INSYS(SYS(z3.Select(a1, mq)), mq)))        # the cache invariant is re-established
    cx.ensures(post)
    cx.raises(lambda st, e: z3.BoolVal(True))
