"""Sidecar contracts: program/distribution/*.py — closed-form raw moments against spec sums/integrals, parameter arities,
supports and discreteness (C08; the support contracts also serve C05, the moment contracts C03/C01)."""
import z3
from pyvc.core import *
from pyvc.verify import contract, ind

D = 'program/distribution/'
OO = z3.Real('oo')          # the CAS infinity, an opaque positive constant in supports


def one_zero(cx):
    cx.call('One', lambda ex, st, r, a, kw: VN(1))
    cx.call('Zero', lambda ex, st, r, a, kw: VN(0))
    cx.glob('oo', VR(OO))


# ------------------------------------------------------------------ moments
@contract(D + 'bernoulli.py', 'Bernoulli.get_moment', ['C08', 'C03'])
def bernoulli_moment(cx):
    p = cx.real('p'); k = cx.int('k')
    cx.param(self=cx.obj('Bernoulli', p=p), k=k); one_zero(cx)
    cx.requires(k.t >= 0)
    # E[X^k] = 0^k (1-p) + 1^k p  =  1 for k = 0,  p for k >= 1
    cx.ensures(lambda st, r: toreal(r) == z3.If(k.t == 0, z3.RealVal(1), p.t))
    cx.replay = dict(kind='bernoulli_moment')


@contract(D + 'categorical.py', 'Categorical.get_moment', ['C08', 'C03'])
def categorical_moment(cx):
    cx.replay = dict(kind='categorical_moment')
    probs = cx.seq('probabilities', DR); k = cx.int('k')
    cx.param(self=cx.obj('Categorical', probabilities=probs), k=k)
    cx.requires(k.t >= 0)
    S = z3.RecFunction('S_cat', I, R); j = z3.Int('j')
    z3.RecAddDefinition(S, [j], z3.If(j <= 0, z3.RealVal(0), S(j - 1) + POW(z3.ToReal(j - 1), k.t) * probs.t[j - 1]))
    cx.invariant(0, lambda st: toreal(st['m']) == S(st['$i0'].t))
    cx.ensures(lambda st, r: toreal(r) == S(z3.Length(probs.t)))        # sum_i i^k p_i


@contract(D + 'discrete_uniform.py', 'DiscreteUniform.get_moment', ['C08', 'C03'])
def discrete_uniform_moment(cx):
    vals = cx.seq('values', DN); k = cx.int('k')
    cx.param(self=cx.obj('DiscreteUniform', values=vals), k=k)
    cx.requires(k.t >= 0, z3.Length(vals.t) > 0)
    cx.call('Rational', lambda ex, st, r, a, kw: VN(toreal(a[0]) / toreal(a[1])))
    n = z3.ToReal(z3.Length(vals.t))
    S = z3.RecFunction('S_du', I, R); j = z3.Int('j')
    z3.RecAddDefinition(S, [j], z3.If(j <= 0, z3.RealVal(0), S(j - 1) + POW(vals.t[j - 1], k.t) / n))
    cx.invariant(0, lambda st: toreal(st['m']) == S(st['$i0'].t))
    cx.ensures(lambda st, r: toreal(r) == S(z3.Length(vals.t)))         # sum_v v^k / |values|


@contract(D + 'uniform.py', 'Uniform.get_moment', ['C08', 'C03'])
def uniform_moment(cx):
    cx.replay = dict(kind='uniform_moment')
    a, b = cx.real('a'), cx.real('b'); k = cx.int('k')
    cx.param(self=cx.obj('Uniform', a=a, b=b), k=k)
    cx.requires(k.t >= 0, a.t != b.t)
    # integral_a^b x^k/(b-a) dx
    cx.ensures(lambda st, r: toreal(r) == (POW(b.t, k.t + 1) - POW(a.t, k.t + 1)) / (z3.ToReal(k.t + 1) * (b.t - a.t)))


@contract(D + 'exponential.py', 'Exponential.get_moment', ['C08', 'C03'])
def exponential_moment(cx):
    cx.replay = dict(kind='exponential_moment')
    lamb = cx.real('lamb'); k = cx.int('k')
    cx.param(self=cx.obj('Exponential', lamb=lamb), k=k)
    cx.requires(k.t >= 0, lamb.t != 0)
    F = z3.RecFunction('fact', I, R); j = z3.Int('j')
    z3.RecAddDefinition(F, [j], z3.If(j <= 0, z3.RealVal(1), z3.ToReal(j) * F(j - 1)))
    cx.call('factorial', lambda ex, st, r, args, kw: VR(F(toint(args[0]))), trusted='symengine factorial(k) = k!')
    cx.ensures(lambda st, r: toreal(r) == F(k.t) / POW(lamb.t, k.t))     # k! / lambda^k


# ------------------------------------------------------------------ set_parameters (arity / validation)
def arity_contract(file, cls, fields):
    n = len(fields)

    @contract(D + file, f'{cls}.set_parameters', ['C08', 'C19'])
    def c(cx):
        params = cx.seq('parameters', DR)
        self = cx.obj(cls, **{f: VR(z3.Real(f'old_{f}')) for f in fields})
        cx.param(self=self, parameters=params)
        cx.ensures(lambda st, r: z3.And(z3.Length(params.t) == n,
                                        *[toreal(st.field(self, f)) == params.t[i] for i, f in enumerate(fields)]))
        cx.raises(lambda st, e: z3.Length(params.t) != n)
    return c


arity_contract('bernoulli.py', 'Bernoulli', ['p'])
arity_contract('uniform.py', 'Uniform', ['a', 'b'])
arity_contract('exponential.py', 'Exponential', ['lamb'])
arity_contract('normal.py', 'Normal', ['mu', 'sigma2'])
arity_contract('laplace.py', 'Laplace', ['mu', 'b'])
arity_contract('gamma.py', 'Gamma', ['k', 'theta'])
arity_contract('truncated_normal.py', 'TruncNormal', ['mu', 'sigma2', 'a', 'b'])


@contract(D + 'beta.py', 'Beta.set_parameters', ['C08', 'C19'])
def beta_params(cx):
    params = cx.seq('parameters', DR)
    self = cx.obj('Beta', a=cx.real('old_a'), b=cx.real('old_b'), scale=cx.real('old_scale')); one_zero(cx)
    cx.param(self=self, parameters=params)
    L = z3.Length(params.t)
    cx.ensures(lambda st, r: z3.And(z3.Or(L == 2, L == 3), toreal(st.field(self, 'a')) == params.t[0], toreal(st.field(self, 'b')) == params.t[1],
                                    toreal(st.field(self, 'scale')) == z3.If(L == 2, z3.RealVal(1), params.t[2])))
    cx.raises(lambda st, e: z3.Not(z3.Or(L == 2, L == 3)))


@contract(D + 'categorical.py', 'Categorical.set_parameters', ['C08', 'C19'])
def categorical_params(cx):
    params = cx.seq('parameters', DR); isnum = cx.bool('sum_is_Number')
    self = cx.obj('Categorical', probabilities=cx.seq('old', DR))
    cx.param(self=self, parameters=params)
    cx.call('sum', lambda ex, st, r, a, kw: VN(SUMSEQ(a[0].t)))     # compared by value: only inspected when it is a Number
    cx.attr('is_Number', lambda ex, st, o: isnum)
    bad = z3.Or(z3.Length(params.t) == 0, z3.And(isnum.t, SUMSEQ(params.t) != 1))
    cx.ensures(lambda st, r: z3.And(z3.Not(bad), st.field(self, 'probabilities').t == params.t))
    cx.raises(lambda st, e: bad)        # numeric probability vectors that do not sum to 1 are refused


@contract(D + 'discrete_uniform.py', 'DiscreteUniform.set_parameters', ['C08', 'C19'])
def discrete_uniform_params(cx):
    params = cx.seq('parameters', DN); i0, i1 = cx.bool('p0_is_Integer'), cx.bool('p1_is_Integer')
    self = cx.obj('DiscreteUniform', values=cx.seq('old', DN))
    cx.param(self=self, parameters=params)
    lo, hi = z3.ToInt(params.t[0]), z3.ToInt(params.t[1])
    cx.attr('is_Integer', lambda ex, st, o: VB(z3.If(o.t == params.t[0], i0.t, i1.t)))
    cx.set_hook('int_of_real', lambda ex, st, a: VI(z3.ToInt(a.t)))
    cx.requires(z3.Implies(i0.t, z3.IsInt(params.t[0])), z3.Implies(i1.t, z3.IsInt(params.t[1])),
                z3.Implies(z3.Length(params.t) == 2, params.t[0] != params.t[1]))
    cx.note("the is_Integer attribute hook distinguishes the two parameters by value; the contract therefore requires p0 != p1 (p0 == p1 is covered by the bounded C08 grid: DiscreteUniform(3,3))")
    j = z3.Int('j')

    def post(st, r):
        v = st.field(self, 'values')
        n = z3.If(hi - lo + 1 < 0, 0, hi - lo + 1)
        return z3.And(z3.Length(params.t) == 2, i0.t, i1.t, z3.Length(v.t) == n,
                      z3.ForAll([j], z3.Implies(z3.And(0 <= j, j < n), v.t[j] == z3.ToReal(lo + j))))
    cx.ensures(post)
    cx.raises(lambda st, e: z3.Or(z3.Length(params.t) != 2, z3.Not(i0.t), z3.Not(i1.t)))


# ------------------------------------------------------------------ supports and discreteness
def support_interval(file, cls, fields, lo, hi, discrete=False):
    @contract(D + file, f'{cls}.get_support', ['C08', 'C05'])
    def c(cx):
        fs = {f: cx.real(f) for f in fields}
        self = cx.obj(cls, **fs); one_zero(cx)
        cx.param(self=self)

        def post(st, r):
            if r.kind not in ('set', 'seq'): return z3.BoolVal(False)
            el = r.x['ek'].wrap(r.t[0])
            return z3.And(z3.Length(r.t) == 1, toreal(el.t[0]) == lo(fs), toreal(el.t[1]) == hi(fs))
        cx.ensures(post)

    @contract(D + file, f'{cls}.is_discrete', ['C08'])
    def c2(cx):
        cx.param(self=cx.obj(cls))
        cx.ensures(lambda st, r: truthy(r) == z3.BoolVal(discrete))
    return c


support_interval('uniform.py', 'Uniform', ['a', 'b'], lambda f: f['a'].t, lambda f: f['b'].t)
support_interval('exponential.py', 'Exponential', ['lamb'], lambda f: z3.RealVal(0), lambda f: OO)
support_interval('normal.py', 'Normal', ['mu', 'sigma2'], lambda f: -OO, lambda f: OO)
support_interval('laplace.py', 'Laplace', ['mu', 'b'], lambda f: -OO, lambda f: OO)
support_interval('gamma.py', 'Gamma', ['k', 'theta'], lambda f: z3.RealVal(0), lambda f: OO)
support_interval('beta.py', 'Beta', ['a', 'b', 'scale'], lambda f: z3.RealVal(0), lambda f: f['scale'].t)
support_interval('truncated_normal.py', 'TruncNormal', ['mu', 'sigma2', 'a', 'b'], lambda f: f['a'].t, lambda f: f['b'].t)


@contract(D + 'bernoulli.py', 'Bernoulli.get_support', ['C08', 'C05'])
def bernoulli_support(cx):
    cx.param(self=cx.obj('Bernoulli', p=cx.real('p'))); one_zero(cx)
    cx.ensures(lambda st, r: z3.And(member(r.t, z3.RealVal(0)), member(r.t, z3.RealVal(1))))


@contract(D + 'categorical.py', 'Categorical.get_support', ['C08', 'C05'])
def categorical_support(cx):
    probs = cx.seq('probabilities', DR)
    cx.param(self=cx.obj('Categorical', probabilities=probs))
    i = z3.Int('i')
    # the support is {0, ..., len-1}: stated element-wise (the i-th element of the built set is i)
    cx.ensures(lambda st, r: z3.And(z3.Length(r.t) == z3.Length(probs.t),
                                    z3.ForAll([i], z3.Implies(z3.And(0 <= i, i < z3.Length(probs.t)), r.t[i] == z3.ToReal(i)))))


@contract(D + 'discrete_uniform.py', 'DiscreteUniform.get_support', ['C08', 'C05'])
def discrete_uniform_support(cx):
    vals = cx.seq('values', DN)
    cx.param(self=cx.obj('DiscreteUniform', values=vals))
    cx.ensures(lambda st, r: r.t == vals.t)           # exactly the value list


for f_, c_ in (('bernoulli.py', 'Bernoulli'), ('categorical.py', 'Categorical'), ('discrete_uniform.py', 'DiscreteUniform')):
    def mk(f_, c_):
        @contract(D + f_, f'{c_}.is_discrete', ['C08'])
        def c(cx):
            cx.param(self=cx.obj(c_))
            cx.ensures(lambda st, r: truthy(r) == z3.BoolVal(True))
    mk(f_, c_)


# ------------------------------------------------------------------ existence of the moment-generating function (C08, C13)
def mgf_exists_contract(file, cls, fields, region):
    """mgf_exists_at(t) answers True ONLY inside the convergence region of the moment-generating function and only when the comparison with the
    parameters is decided (numeric); everything else (symbolic t or parameters, boundary, outside) is answered False -- the analysis then
    refuses the exponential moment instead of inventing one.  region(self fields, t) is the region written from the defining integral."""
    @contract(D + file, f'{cls}.mgf_exists_at', ['C08', 'C13'], name=f'{D}{file}::{cls}.mgf_exists_at')
    def c(cx):
        vals = {f: cx.num(f) for f in fields}
        t = cx.num('t')
        cx.param(self=cx.obj(cls, **vals), t=t)
        DECIDED = cx.bool('relation_is_decided')
        cx.call('sympify', lambda ex, st, r, a, kw: a[0]); cx.call('Abs', lambda ex, st, r, a, kw: VN(z3.If(toreal(a[0]) >= 0, toreal(a[0]), -toreal(a[0]))))
        cx.attr('is_Boolean', lambda ex, st, o: DECIDED)
        cx.requires(*[v.t > 0 for v in vals.values()])          # rate / scale parameters are positive (set_parameters contracts)
        cx.ensures(lambda st, r: r.t == z3.And(DECIDED.t, region({f: v.t for f, v in vals.items()}, t.t)) if r.kind == 'bool' else z3.BoolVal(False))
    return c


mgf_exists_contract('exponential.py', 'Exponential', ['lamb'], lambda p, t: t < p['lamb'])               # E e^{tX} = lamb/(lamb - t) for t < lamb
mgf_exists_contract('gamma.py', 'Gamma', ['theta'], lambda p, t: t < 1 / p['theta'])                      # (1 - theta t)^(-k) for t < 1/theta
mgf_exists_contract('laplace.py', 'Laplace', ['b'], lambda p, t: z3.And(t < 1 / p['b'], -t < 1 / p['b']))   # e^{mu t}/(1 - b^2 t^2) for |t| < 1/b


def mgf_everywhere(file, cls):
    @contract(D + file, f'{cls}.mgf_exists_at', ['C08', 'C13'], name=f'{D}{file}::{cls}.mgf_exists_at')
    def c(cx):
        """bounded or Gaussian-tailed law: the moment-generating function exists for every t"""
        cx.param(self=cx.ref('self'), t=cx.real('t'))
        cx.ensures(lambda st, r: r.t if r.kind == 'bool' else z3.BoolVal(False))
    return c


for _f, _c in (('bernoulli.py', 'Bernoulli'), ('beta.py', 'Beta'), ('discrete_uniform.py', 'DiscreteUniform'), ('normal.py', 'Normal'),
               ('truncated_normal.py', 'TruncNormal'), ('uniform.py', 'Uniform')):
    mgf_everywhere(_f, _c)


@contract(D + 'distribution.py', 'Distribution.__init__', ['C08', 'C19'])
def distribution_init(cx):
    """the parameters reach set_parameters in the given order and number; a float literal is replaced by the rational it spells (exact), every
    other parameter is passed on unchanged"""
    ISFLOAT = z3.Function('is_Float', R, B); RAT = z3.Function('float_to_rational', R, R)
    ps = cx.seq('parameters', DR)
    cx.param(self=cx.obj('Distribution'), parameters=ps)
    cx.call('sympify', lambda ex, st, r, a, kw: VR(toreal(a[0])))
    cx.attr('is_Float', lambda ex, st, o: VB(ISFLOAT(toreal(o))))
    cx.call('float_to_rational', lambda ex, st, r, a, kw: VR(RAT(toreal(a[0]))), trusted='float_to_rational: Rational(str(float)), the rational the literal spells (C19 bounded)')
    cx.set_hook('empty_kinds', {'params': DSeq(DR)})
    j = z3.Int('j')
    conv = lambda q: z3.If(ISFLOAT(ps.t[q]), RAT(ps.t[q]), ps.t[q])
    cx.invariant(0, lambda st: z3.And(z3.Length(st['params'].t) == st['$i0'].t, z3.ForAll([j], z3.Implies(z3.And(0 <= j, j < st['$i0'].t), st['params'].t[j] == conv(j)))))
    cx.st.vars['$passed'] = V('none')

    def set_parameters(ex, st, r, a, kw):
        v = a[0]
        ex.need(st, z3.And(z3.Length(v.t) == z3.Length(ps.t), z3.ForAll([j], z3.Implies(z3.And(0 <= j, j < z3.Length(ps.t)), v.t[j] == conv(j)))), 'set_parameters.receives-converted-parameters@0', 'ensures')
        return VNone()
    cx.call('set_parameters', set_parameters)
    cx.call('super', lambda ex, st, r, a, kw: V('opaque')); cx.call('__init__', lambda ex, st, r, a, kw: VNone())
    cx.ensures(lambda st, r: z3.BoolVal(True))
