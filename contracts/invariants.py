"""Sidecar contracts: invariants/lattice_ideal.py (C06).

Valuation: symbol i has the value s_i = b_i**n (non-zero), its inverse symbol the value 1/s_i.  For every row e of the exponent-lattice
basis prod_i b_i**e_i == 1 (C16), hence prod_i s_i**e_i == 1 (lemma L-geom: (prod b_i**e_i)**n)."""
import z3
from pyvc.core import *
from pyvc.verify import contract, ind

F = 'invariants/lattice_ideal.py'


@contract(F, 'LatticeIdeal.compute_basis', ['C06'])
def lattice_ideal_basis(cx):
    """every generator reported for the lattice ideal evaluates to 0 at s_i = b_i**n: the binomial built for a row e has the value
    prod_i s_i**e_i - 1, the relations symbol*inverse - 1 have the value 0, and the elimination (Groebner basis) stays inside the ideal."""
    rows = cx.seq('lattice_basis', DSeq(DI)); syms = cx.seq('symbols', DR)
    me = cx.obj('LatticeIdeal', lattice_basis=rows, symbols=syms, inverse_symbols=V('map', None, empty=True))
    cx.param(self=me)
    j = z3.Int('j'); r_ = z3.Int('r_')
    n = z3.Length(syms.t)
    cx.requires(z3.ForAll([j], z3.Implies(z3.And(0 <= j, j < n), syms.t[j] != 0)),
                z3.ForAll([r_], z3.Implies(z3.And(0 <= r_, r_ < z3.Length(rows.t)), z3.Length(rows.t[r_]) == n)))
    INV = z3.Function('inverse_value', R, R)             # value of the inverse symbol of a symbol with value s (s * INV(s) == 1 at the valuation)
    SP = lambda s_, p: z3.If(p > 0, POW(s_, p), z3.If(p < 0, POW(INV(s_), -p), z3.RealVal(1)))
    PR = z3.RecFunction('row_product', z3.SeqSort(I), I, R); rw = z3.Const('rw', z3.SeqSort(I)); k = z3.Int('k')
    z3.RecAddDefinition(PR, [rw, k], z3.If(k <= 0, z3.RealVal(1), PR(rw, k - 1) * SP(syms.t[k - 1], rw[k - 1])))
    # the lattice rows are multiplicative relations of the bases (C16) => of the geometric sequences (L-geom)
    cx.requires(z3.ForAll([r_], z3.Implies(z3.And(0 <= r_, r_ < z3.Length(rows.t)), PR(rows.t[r_], n) == 1)))
    cx.lemmas.append(('L-geom: prod b_i**e_i == 1 implies prod (b_i**n)**e_i == 1 for every n', None))
    cx.call('sympify', lambda ex, st, r, a, kw: VR(toreal(a[0])))
    cx.call('get_inverse_symbol', lambda ex, st, r, a, kw: VR(INV(toreal(a[0]))), trusted='get_inverse_symbol(s): the symbol whose value is 1/s (relation s*inv - 1 is added below)')
    inv_map = V('map', (z3.K(R, z3.RealVal(0)), z3.K(R, z3.BoolVal(False))), kk=DR, vk=DR, size=z3.Int('n_inverse_symbols'))
    cx.set_hook('empty_kinds', {'equations': D('set', elem=DR), 'self.inverse_symbols': inv_map, 'basis': D('set', elem=DR)})
    ZERO = z3.Function('vanishes', R, B)

    def set_add(ex, st, recv, a, kw):
        # every element added to `equations` / `basis` must have the value 0 at the valuation
        # binomials of the lattice rows (first loop) and the surviving Groebner elements (last loop) must vanish at the valuation; the relations
        # symbol*inverse - 1 added in between DEFINE the valuation of the inverse symbols (inverse = 1/symbol) and are not obligations
        if '$i2' in st.vars and '$i3' not in st.vars: return VNone()
        ex.need(st, toreal(a[0]) == 0, 'generator.vanishes@0', 'ensures')
        return VNone()
    cx.call('add', set_add)
    gb = cx.seq('groebner_basis', DR)
    cx.call('groebner', lambda ex, st, r, a, kw: gb, trusted='sympy groebner: every element of the basis lies in the ideal of the given equations, hence vanishes wherever they all vanish')
    cx.requires(z3.ForAll([j], z3.Implies(z3.And(0 <= j, j < z3.Length(gb.t)), gb.t[j] == 0)))
    cx.call('set', lambda ex, st, r, a, kw: V('opaque') if a else NotImplemented)
    cx.call('list', lambda ex, st, r, a, kw: V('opaque'))
    cx.attr('free_symbols', lambda ex, st, o: V('opaque'))
    cx.set_hook('binop', lambda ex, st, op, a, b: VB(ex.fresh(B, 'shares_inverse_symbol')) if op == 'BitAnd' else None)
    def map_iter(ex, st, m, what):
        # the items of inverse_symbols are pairs (symbol, its inverse symbol): values (s, 1/s) with s != 0
        L = ex.fresh(I, 'n_inv'); ex.axioms.append(L >= 0)
        def elem(i):
            return VTuple(VR(ex.fresh(R, 'sym_value')), VR(ex.fresh(R, 'inv_value')))
        return L, elem
    cx.set_hook('map_iteration', map_iter)
    cx.invariant(0, lambda st: z3.BoolVal(True))
    cx.invariant(1, lambda st: toreal(st['expr']) == PR(st['row'].t, st['$i1'].t))
    cx.invariant(2, lambda st: z3.BoolVal(True))
    cx.invariant(3, lambda st: z3.BoolVal(True))
    cx.ensures(lambda st, r: z3.BoolVal(True))


@contract('invariants/exponent_lattice.py', 'ExponentLattice.compute_basis_rational', ['C16'])
def compute_basis_rational(cx):
    """assembly of the linear diophantine system: one row per prime with the multiplicities of that prime in every base (sum of e_i * mult_i = 0),
    and -- iff some base is negative -- ONE more row [multiplicities of -1 | 2] with a new last unknown (sum of e_i * sign_i + 2t = 0: an even
    number of factors -1), every prime row being extended by 0 for that unknown; the integer kernel of exactly this system, without the auxiliary
    last coordinate, is returned.  (Factorisation and the kernel itself: bounded C16 check.)"""
    E = cx.seq('prime_rows', DSeq(DI)); S = cx.seq('sign_row', DI); HASNEG = cx.bool('some_base_is_negative'); bases = cx.seq('bases', DR)
    me = cx.obj('ExponentLattice', bases=bases)
    cx.param(self=me)
    nb = z3.Length(bases.t); j = z3.Int('j'); r_ = z3.Int('r_')
    cx.requires(z3.ForAll([r_], z3.Implies(z3.And(0 <= r_, r_ < z3.Length(E.t)), z3.Length(E.t[r_]) == nb)), z3.Length(S.t) == nb, nb >= 1, z3.Length(E.t) >= 1)
    # the factor table is built by the nested helper (not executed here): its content is the ghost (E, S, HASNEG)
    table = V('ref', z3.Const('factors_to_multiplicities', REF))
    cx.set_hook('empty_kinds', {'factors_to_multiplicities': table})
    cx.call('Rational', lambda ex, st, r, a, kw: V('opaque')); cx.call('numer', lambda ex, st, r, a, kw: V('opaque')); cx.call('denom', lambda ex, st, r, a, kw: V('opaque'))
    cx.call('factorint', lambda ex, st, r, a, kw: V('opaque'), trusted='sympy.factorint')
    cx.call('add_factors_with_mults', lambda ex, st, r, a, kw: VNone(), trusted='nested helper add_factors_with_mults: fills the table prime -> multiplicities per base (bounded C16 check)')
    cx.set_hook('in_hook', lambda ex, st, a, b: HASNEG.t if (b.kind == 'ref' and b.t.eq(table.t)) else None)
    cx.set_hook('index_hook', lambda ex, st, o, i: S if (o.kind == 'ref' and o.t.eq(table.t)) else None)
    cx.call('items', lambda ex, st, r, a, kw: V('opaque', 'table-items'))

    def comp(ex, st, c):
        src = c.x['src']
        if src.kind == 'opaque' and src.t == 'table-items': return E           # [mults for k, mults in table.items() if k != -1]
        if src.kind == 'range': return st['matrix']                              # rows = [[int(e) for e in matrix.row(r)] for r in range(matrix.shape[0])]
        if src.kind == 'seq': return V('seq', ex.fresh(z3.SeqSort(z3.SeqSort(I)), 'without_last'), ek=DSeq(DI))
        return None
    cx.set_hook('comprehension', comp)
    cx.trusted.append('rows = [[int(e) ...] ...]: the entries of the matrix row by row (sympy Matrix -> lists)')

    # a sympy Matrix is modelled as (number of rows, row function): row(r) is a z3 sequence term -- no quantifiers, no nested sequences
    def mat(n, width, row): return V('matrix', (n, width, row))

    def matrix(ex, st, r, a, kw):
        x = a[0]
        if x.kind == 'comp': x = ex.materialise(st, x)
        if x.kind == 'seq' and x.x['ek'].kind == 'seq':               # Matrix(list of rows)
            t = z3.simplify(x.t)
            if t.decl().kind() == z3.Z3_OP_SEQ_UNIT: return mat(z3.IntVal(1), nb, lambda r_, one=t.arg(0): one)      # Matrix([row])
            return mat(z3.Length(x.t), nb, lambda r_, sq=x.t: sq[r_])
        if x.kind == 'repeat': return V('column', x.t)                  # Matrix([c] * n): a constant column
        raise OutOfReach('Matrix(...)')
    cx.call('Matrix', matrix)
    cx.attr('shape', lambda ex, st, o: VTuple(VI(o.t[0]), VI(o.t[1])))

    def row_insert(ex, st, r, a, kw):
        pos = z3.simplify(toint(a[0])); m2 = a[1]
        if r.kind != 'matrix' or m2.kind != 'matrix' or not z3.is_int_value(z3.simplify(m2.t[0])): raise OutOfReach('row_insert')
        n, w, row = r.t; k = z3.simplify(m2.t[0]).as_long(); row2 = m2.t[2]
        return mat(n + k, w, lambda r_: z3.If(r_ < pos, row(r_), z3.If(r_ < pos + k, row2(r_ - pos), row(r_ - k))))
    cx.call('row_insert', row_insert, trusted='sympy Matrix.row_insert(pos, rows)')

    def col_insert(ex, st, r, a, kw):
        pos = toint(a[0]); col = a[1]
        if r.kind != 'matrix' or col.kind != 'column': raise OutOfReach('col_insert')
        n, w, row = r.t
        ex.need(st, pos == w, 'new-unknown-is-the-last-column@0', 'ensures')
        return mat(n, w + 1, lambda r_: z3.Concat(row(r_), z3.Unit(col.t)))
    cx.call('col_insert', col_insert, trusted='sympy Matrix.col_insert(pos, column)')

    def set_last(sq, v):
        if sq.decl().kind() == z3.Z3_OP_SEQ_CONCAT and sq.arg(sq.num_args() - 1).decl().kind() == z3.Z3_OP_SEQ_UNIT:
            return z3.Concat(*[sq.arg(i) for i in range(sq.num_args() - 1)], z3.Unit(v))
        return z3.Concat(z3.SubSeq(sq, 0, z3.Length(sq) - 1), z3.Unit(v))

    def store(ex, st, o, k, v):
        if not (o.kind == 'matrix' and k.kind == 'tuple'): return False
        ri, ci = z3.simplify(toint(k.t[0])), z3.simplify(toint(k.t[1]))
        if not (z3.is_int_value(ci) and ci.as_long() == -1): raise OutOfReach('matrix entry store other than the last column')
        n, w, row = o.t
        ri = ri + n if (z3.is_int_value(ri) and ri.as_long() < 0) else ri
        st.vars['matrix'] = mat(n, w, lambda r_: z3.If(r_ == ri, set_last(row(r_), toint(v)), row(r_)))
        return True
    cx.set_hook('subscript_store_hook', store)

    def binop(ex, st, op, a, b):
        if op == 'Mult' and a.kind == 'seq' and b.kind == 'int':            # [c] * n
            t = z3.simplify(a.t)
            if t.decl().kind() == z3.Z3_OP_SEQ_UNIT: return V('repeat', t.arg(0), n=b.t)
        return None
    cx.set_hook('binop', binop)
    KER = cx.seq('integer_kernel', DSeq(DI))

    def kernel(ex, st, r, a, kw):
        rows, nu = a[0], toint(a[1])
        if rows.kind == 'comp': rows = ex.materialise(st, rows)
        if rows.kind != 'matrix': raise OutOfReach('rows')
        n, w, row = rows.t
        nE = z3.Length(E.t); h = HASNEG.t
        rq = ex.fresh(I, 'row_index')                # an arbitrary row of the prime part
        parts = [z3.Implies(h, n == nE + 1), z3.Implies(h, nu == nb + 1),
                 z3.Implies(z3.And(h, 0 <= rq, rq < nE), row(rq) == z3.Concat(E.t[rq], z3.Unit(z3.IntVal(0)))),
                 z3.Implies(h, row(nE) == z3.Concat(S.t, z3.Unit(z3.IntVal(2)))),
                 z3.Implies(z3.Not(h), z3.And(n == nE, nu == nb)), z3.Implies(z3.And(z3.Not(h), 0 <= rq, rq < nE), row(rq) == E.t[rq])]
        ex.need(st, z3.And(*parts), 'diophantine-system.rows@0', 'ensures')
        return KER
    cx.call('_integer_kernel_basis', kernel, trusted='_integer_kernel_basis(rows, k): basis of the integer kernel (bounded C16 check: relation, independence, generation)')
    cx.replay = dict(kind='exponent_lattice_rational')
    cx.invariant(0, lambda st: z3.BoolVal(True))
    cx.ensures(lambda st, r: z3.If(HASNEG.t, z3.BoolVal(r.kind == 'seq' and not r.t.eq(KER.t)), z3.BoolVal(r.kind == 'seq' and r.t.eq(KER.t))))


@contract('invariants/invariant_ideal.py', 'InvariantIdeal.compute_basis', ['C06', 'C07'])
def invariant_ideal_basis(cx):
    """the exponent lattice is computed for the bases b_1..b_k and handed to the lattice ideal together with symbols s_1..s_k such that s_i is
    the symbol that abstracts b_i**n (same position); the Groebner elimination runs over n > abstraction symbols > goal variables and only
    elements free of n and of the abstraction symbols are reported."""
    SYM = z3.Function('symbol_of_base', REF, REF)
    keys = cx.seq('bases_in_table_order', DRef()); vals = cx.seq('symbols_in_table_order', DRef())
    kq = z3.Int('kq')
    cx.requires(z3.Length(keys.t) == z3.Length(vals.t), z3.ForAll([kq], z3.Implies(z3.And(0 <= kq, kq < z3.Length(keys.t)), vals.t[kq] == SYM(keys.t[kq]))))
    table = V('ref', z3.Const('base_to_symbol', REF)); cfs = V('ref', z3.Const('closed_forms', REF))
    me = cx.obj('InvariantIdeal', base_to_symbol=table, closed_forms=cfs, n=cx.ref('n'))
    cx.param(self=me)
    cx.call('keys', lambda ex, st, r, a, kw: keys if r.t.eq(table.t) else V('opaque'), trusted='dict.keys()/values() of the same unmodified dict enumerate corresponding entries in the same order')
    cx.call('values', lambda ex, st, r, a, kw: vals if r.t.eq(table.t) else V('opaque'))
    cx.call('items', lambda ex, st, r, a, kw: V('opaque'))
    cx.set_hook('comprehension', lambda ex, st, c: V('opaque'))
    cx.set_hook('binop', lambda ex, st, op, a, b: (VB(ex.fresh(B, 'mentions_forbidden_symbol')) if (op == 'BitAnd' and 'fs' in (a.kind, b.kind)) else (V('opaque') if ('opaque' in (a.kind, b.kind) or op in ('BitOr', 'BitAnd')) else None)))

    def sorted_(ex, st, r, a, kw):
        x = a[0]
        if x.kind != 'seq': return V('opaque')
        p = ex.fresh(x.t.sort(), 'sorted'); ex.axioms.append(z3.Length(p) == z3.Length(x.t))       # some permutation: nothing is known about positions
        return V('seq', p, **x.x)
    cx.call('sorted', sorted_)
    cx.st.vars['$lattice_bases'] = V('none')

    def exponent_lattice(ex, st, r, a, kw):
        st.vars['$lattice_bases'] = a[0]
        return V('ref', ex.fresh(REF, 'exponent_lattice'))
    cx.call('ExponentLattice', exponent_lattice)
    cx.call('compute_basis', lambda ex, st, r, a, kw: V('ref', ex.fresh(REF, 'basis')))

    def lattice_ideal(ex, st, r, a, kw):
        bases = st['$lattice_bases']; syms = a[1]
        if bases.kind != 'seq' or syms.kind != 'seq':
            ex.need(st, z3.BoolVal(False), 'lattice-rows-and-symbols.same-order@0', 'ensures'); return V('ref', ex.fresh(REF, 'lattice_ideal'))
        ex.need(st, z3.And(z3.Length(bases.t) == z3.Length(syms.t),
                           z3.ForAll([kq], z3.Implies(z3.And(0 <= kq, kq < z3.Length(bases.t)), syms.t[kq] == SYM(bases.t[kq])))),
                'lattice-rows-and-symbols.same-order@0', 'ensures')
        return V('ref', ex.fresh(REF, 'lattice_ideal'))
    cx.call('LatticeIdeal', lattice_ideal, trusted='LatticeIdeal(rows, symbols): contract in this file (column i of a row is the exponent of symbols[i])')
    gb = cx.seq('groebner_basis', DRef())
    cx.call('groebner', lambda ex, st, r, a, kw: gb, trusted='sympy groebner (elimination order given by the symbol list)')
    cx.call('set', lambda ex, st, r, a, kw: V('opaque')); cx.call('list', lambda ex, st, r, a, kw: a[0] if a and a[0].kind == 'seq' else V('opaque'))
    cx.call('add', lambda ex, st, r, a, kw: VNone())
    cx.attr('free_symbols', lambda ex, st, o: V('fs', None)); cx.field('free_symbols', lambda ex, st, o: V('fs', None))
    cx.set_hook('empty_kinds', {'basis': V('opaque')})
    cx.invariant(0, lambda st: z3.BoolVal(True))
    cx.ensures(lambda st, r: z3.BoolVal(True))


@contract('invariants/exponent_lattice.py', 'ExponentLattice._integer_kernel_basis', ['C16', 'C07'])
def integer_kernel_basis(cx):
    """every step of the elimination is an ELEMENTARY UNIMODULAR row operation on [rows^T | identity]: either  row_r := row_r - q*row_s  with an
    integer q and r != s, or a swap of two rows.  (Lemma L-unimod, stated: a product of such operations is unimodular, so the rows of the right
    block stay a basis of Z^k and the rows whose left block vanishes generate the whole integer kernel -- completeness, C07; a scaled operation
    p*row_r - q*row_s keeps every reported vector in the kernel but loses generators.)  Index safety of all row/column accesses."""
    m = cx.int('number_of_equations'); nu = cx.int('num_unknowns')
    rows = V('rowsarg', None)
    cx.param(rows=rows, num_unknowns=nu)
    cx.requires(m.t >= 0, nu.t >= 1)
    LEN = m.t + nu.t
    RowArr = z3.ArraySort(I, z3.SeqSort(I))
    W0 = z3.Const('work_initial', RowArr)
    rq, jq = z3.Int('rq'), z3.Int('jq')

    def mat(w): return V('mat', w)
    def lens(w): return z3.ForAll([rq], z3.Implies(z3.And(0 <= rq, rq < nu.t), z3.Length(z3.Select(w, rq)) == LEN))
    cx.call('len', lambda ex, st, r, a, kw: VI(m.t) if a[0].kind == 'rowsarg' else NotImplemented)
    cx.st.vars['$pending'] = V('opaque', None)          # a row copy that is the first half of a swap: (destination, source, matrix before)

    def comp(ex, st, c):
        src = c.x['src']
        tgt = c.x['target']
        if src.kind == 'range' and isinstance(c.x['elt'], ast.BinOp):                      # the initial [rows^T | identity]
            st.pc.append(lens(W0)); return mat(W0)
        if src.kind == 'range' and c.x['conds']:                                           # nonzero = [r for r in range(pivot, k) if work[r][col] != 0]
            w = st['work'].t; col = toint(st['col']); lo, hi = src.x['lo'], src.x['hi']
            nz = ex.fresh(z3.SeqSort(I), 'nonzero'); i_ = ex.fresh(I, 'i')
            st.pc.append(z3.ForAll([i_], z3.Implies(z3.And(0 <= i_, i_ < z3.Length(nz)),
                                                    z3.And(lo <= nz[i_], nz[i_] < hi, z3.Select(w, nz[i_])[col] != 0))))
            return V('seq', nz, ek=DI)
        if src.kind == 'zip':                                                              # [a - q*b for a, b in zip(row_r, row_s)]
            ra, rb = src.x['srcs']
            elt = c.x['elt']
            ok = (isinstance(elt, ast.BinOp) and isinstance(elt.op, (ast.Sub, ast.Add)) and isinstance(elt.left, ast.Name) and isinstance(elt.right, ast.BinOp)
                  and isinstance(elt.right.op, ast.Mult) and isinstance(tgt, ast.Tuple) and len(tgt.elts) == 2 and elt.left.id == tgt.elts[0].id)
            mult = None
            if ok:
                a_, b_ = tgt.elts[0].id, tgt.elts[1].id
                l, r = elt.right.left, elt.right.right
                if isinstance(r, ast.Name) and r.id == b_ and not any(isinstance(y, ast.Name) and y.id in (a_, b_) for y in ast.walk(l)): mult = l
                elif isinstance(l, ast.Name) and l.id == b_ and not any(isinstance(y, ast.Name) and y.id in (a_, b_) for y in ast.walk(r)): mult = r
            new = ex.fresh(z3.SeqSort(I), 'new_row')
            if mult is None:
                return V('seq', new, ek=DI, elementary=None, shape=ast.unparse(elt))
            q = toint(ex.ev(mult, c.x['st']))
            if isinstance(elt.op, ast.Add): q = -q
            st.pc += [z3.Length(new) == z3.Length(ra.t), z3.ForAll([jq], z3.Implies(z3.And(0 <= jq, jq < z3.Length(ra.t)), new[jq] == ra.t[jq] - q * rb.t[jq]))]
            return V('seq', new, ek=DI, elementary=(ra.t, rb.t, q))
        if src.kind in ('opaque', 'mat'): return V('opaque')
        return None
    import ast
    cx.set_hook('comprehension', comp); cx.set_hook('materialise', ('work', 'nonzero'))

    def index(ex, st, o, i):
        if o.kind != 'mat': return None
        r = toint(i)
        ex.need(st, z3.And(0 <= r, r < nu.t), 'row-index-in-bounds@0', 'safety')
        return V('seq', z3.Select(o.t, r), ek=DI, row_of=(o.t, r))
    cx.set_hook('index_hook', index)
    cx.set_hook('slice_hook', lambda ex, st, o, sl: V('opaque') if o.kind in ('mat', 'opaque', 'seq') else None)

    def min_(ex, st, r, a, kw):
        s = a[0]
        if s.kind != 'seq' or 'key' not in kw: return NotImplemented
        w = ex.fresh(I, 'argmin'); st.pc += [0 <= w, w < z3.Length(s.t)]
        return VI(s.t[w])
    cx.call('min', min_, trusted='min(seq, key=...): an element of the sequence')
    def gcd(ex, st, r, a, kw):
        g = ex.fresh(I, 'gcd'); st.pc += [g >= 0, z3.Implies(z3.Or(toint(a[0]) != 0, toint(a[1]) != 0), g >= 1)]; return VI(g)
    cx.call('gcd', gcd, trusted='math.gcd: non-negative, positive unless both arguments are 0')

    def store(ex, st, o, k, v):
        if o.kind != 'mat': return False
        r = toint(k); w = o.t
        ex.need(st, z3.And(0 <= r, r < nu.t), 'row-index-in-bounds@0', 'safety')
        if v.kind == 'comp': v = ex.materialise(st, v)
        if v.kind != 'seq': raise OutOfReach('row store')
        pend = st['$pending'].t
        if v.get('row_of') is not None:                       # a row copy: half of a swap
            base, src = v.get('row_of')
            if pend is None:
                st.vars['$pending'] = V('opaque', (r, src, base))
            else:
                r1, src1, base1 = pend
                ex.need(st, z3.And(src1 == r, src == r1, z3.BoolVal(base.eq(base1))), 'row-copy.is-half-of-a-swap@0', 'ensures')
                st.vars['$pending'] = V('opaque', None)
            st.vars['work'] = mat(z3.Store(w, r, v.t))
            return True
        el = v.get('elementary')
        if el is None:
            ex.need(st, z3.BoolVal(False), 'row-operation.is-elementary@0', 'ensures', witness={'row_expression': v.get('shape'), 'expected': 'a - q*b with an integer q'})
        else:
            ra, rb, q = el
            ex.need(st, z3.Exists([rq], z3.And(0 <= rq, rq < nu.t, rq != r, ra == z3.Select(w, r), rb == z3.Select(w, rq))), 'row-operation.is-elementary@0', 'ensures')
        st.vars['work'] = mat(z3.Store(w, r, v.t))
        return True
    cx.set_hook('subscript_store_hook', store)
    cx.set_hook('loop_ghosts', ['$pending'])

    def inv(st):
        return z3.And(lens(st['work'].t), z3.BoolVal(st['$pending'].t is None), 0 <= toint(st['pivot']), toint(st['pivot']) <= nu.t)
    def inv_inner(st):          # the pivot row of this round is not touched by the round: its entry in the current column stays non-zero
        rm = toint(st['r_min'])
        return z3.And(inv(st), 0 <= rm, rm < nu.t, z3.Select(st['work'].t, rm)[toint(st['col'])] != 0)
    cx.invariant(0, inv); cx.invariant(1, inv); cx.invariant(2, inv_inner)
    # every equation (column of rows^T) has been eliminated when the kernel rows are read off: the column loop runs over ALL equations
    cx.ensures(lambda st, r: z3.And(z3.BoolVal(st['$pending'].t is None), st['$i0'].t == m.t))
    cx.lemmas.append(('L-unimod: a product of elementary row operations (row_r -= q*row_s, swaps) is unimodular; the kernel rows of a unimodular echelon transformation generate the integer kernel', None))


@contract('invariants/exponent_lattice.py', 'ExponentLattice.is_trivially_empty', ['C16', 'C07'])
def is_trivially_empty(cx):
    """the shortcut "the lattice is trivial" is taken only for an empty list, or when every base is rational, none is 1, NO base has the numerator -1
    or 0 (a base -1/q has the relation b**2 = 1/q**2 ... and -1 itself has (-1)**2 = 1: such bases must go through the full computation), and the
    numerators and denominators different from 1 pass the coprimality test."""
    bases = cx.seq('bases', DN)
    NUM = z3.Function('numerator', R, I); DEN = z3.Function('denominator', R, I); ISRAT = z3.Function('is_Rational', R, B)
    COPRIME = cx.bool('are_coprime_result')
    cx.param(self=cx.obj('ExponentLattice', bases=bases))
    cx.attr('is_Rational', lambda ex, st, o: VB(ISRAT(toreal(o))))
    cx.call('numer', lambda ex, st, r, a, kw: VI(NUM(toreal(a[0])))); cx.call('denom', lambda ex, st, r, a, kw: VI(DEN(toreal(a[0]))))
    cx.call('are_coprime', lambda ex, st, r, a, kw: COPRIME, trusted='are_coprime contract (contracts/misc.py)')
    cx.set_hook('binop', lambda ex, st, op, a, b: V('opaque') if (op == 'Add' and 'comp' in (a.kind, b.kind)) else None)
    j = z3.Int('j'); n = z3.Length(bases.t)
    ok = z3.ForAll([j], z3.Implies(z3.And(0 <= j, j < n), z3.And(ISRAT(bases.t[j]), bases.t[j] != 1,
                                                              z3.Or(NUM(bases.t[j]) == 1, NUM(bases.t[j]) > 1, NUM(bases.t[j]) < -1))))
    cx.ensures(lambda st, r: z3.Implies(r.t, z3.Or(n == 0, z3.And(ok, COPRIME.t))) if r.kind == 'bool' else z3.BoolVal(False))
