"""Sidecar contracts: invariants/lattice_ideal.py (C06).

Valuation: symbol i has the value s_i = b_i**n (non-zero), its inverse symbol the value 1/s_i.  For every row e of the exponent-lattice
basis prod_i b_i**e_i == 1 (C16), hence prod_i s_i**e_i == 1 (lemma L-geom: (prod b_i**e_i)**n)."""
import z3
from pyvc.core import *
from pyvc.verify import contract, ind

F = 'invariants/lattice_ideal.py'


@contract(F, 'LatticeIdeal.compute_basis', ['C06'])
def lattice_ideal_basis(cx):
    """every generator reported for the lattice ideal evaluates to 0 at s_i = b_i**n: the binomial built for a row e has the value
    prod_i s_i**e_i - 1, the relations symbol*inverse - 1 have the value 0, and the elimination (Groebner basis) stays inside the ideal."""
    rows = cx.seq('lattice_basis', DSeq(DI)); syms = cx.seq('symbols', DR)
    me = cx.obj('LatticeIdeal', lattice_basis=rows, symbols=syms, inverse_symbols=V('map', None, empty=True))
    cx.param(self=me)
    j = z3.Int('j'); r_ = z3.Int('r_')
    n = z3.Length(syms.t)
    cx.requires(z3.ForAll([j], z3.Implies(z3.And(0 <= j, j < n), syms.t[j] != 0)),
                z3.ForAll([r_], z3.Implies(z3.And(0 <= r_, r_ < z3.Length(rows.t)), z3.Length(rows.t[r_]) == n)))
    INV = z3.Function('inverse_value', R, R)             # value of the inverse symbol of a symbol with value s (s * INV(s) == 1 at the valuation)
    SP = lambda s_, p: z3.If(p > 0, POW(s_, p), z3.If(p < 0, POW(INV(s_), -p), z3.RealVal(1)))
    PR = z3.RecFunction('row_product', z3.SeqSort(I), I, R); rw = z3.Const('rw', z3.SeqSort(I)); k = z3.Int('k')
    z3.RecAddDefinition(PR, [rw, k], z3.If(k <= 0, z3.RealVal(1), PR(rw, k - 1) * SP(syms.t[k - 1], rw[k - 1])))
    # the lattice rows are multiplicative relations of the bases (C16) => of the geometric sequences (L-geom)
    cx.requires(z3.ForAll([r_], z3.Implies(z3.And(0 <= r_, r_ < z3.Length(rows.t)), PR(rows.t[r_], n) == 1)))
    cx.lemmas.append(('L-geom: prod b_i**e_i == 1 implies prod (b_i**n)**e_i == 1 for every n', None))
    cx.call('sympify', lambda ex, st, r, a, kw: VR(toreal(a[0])))
    cx.call('get_inverse_symbol', lambda ex, st, r, a, kw: VR(INV(toreal(a[0]))), trusted='get_inverse_symbol(s): the symbol whose value is 1/s (relation s*inv - 1 is added below)')
    inv_map = V('map', (z3.K(R, z3.RealVal(0)), z3.K(R, z3.BoolVal(False))), kk=DR, vk=DR, size=z3.Int('n_inverse_symbols'))
    cx.set_hook('empty_kinds', {'equations': D('set', elem=DR), 'self.inverse_symbols': inv_map, 'basis': D('set', elem=DR)})
    ZERO = z3.Function('vanishes', R, B)

    def set_add(ex, st, recv, a, kw):
        # every element added to `equations` / `basis` must have the value 0 at the valuation
        # binomials of the lattice rows (first loop) and the surviving Groebner elements (last loop) must vanish at the valuation; the relations
        # symbol*inverse - 1 added in between DEFINE the valuation of the inverse symbols (inverse = 1/symbol) and are not obligations
        if '$i2' in st.vars and '$i3' not in st.vars: return VNone()
        ex.need(st, toreal(a[0]) == 0, 'generator.vanishes@0', 'ensures')
        return VNone()
    cx.call('add', set_add)
    gb = cx.seq('groebner_basis', DR)
    cx.call('groebner', lambda ex, st, r, a, kw: gb, trusted='sympy groebner: every element of the basis lies in the ideal of the given equations, hence vanishes wherever they all vanish')
    cx.requires(z3.ForAll([j], z3.Implies(z3.And(0 <= j, j < z3.Length(gb.t)), gb.t[j] == 0)))
    cx.call('set', lambda ex, st, r, a, kw: V('opaque') if a else NotImplemented)
    cx.call('list', lambda ex, st, r, a, kw: V('opaque'))
    cx.attr('free_symbols', lambda ex, st, o: V('opaque'))
    cx.set_hook('binop', lambda ex, st, op, a, b: VB(ex.fresh(B, 'shares_inverse_symbol')) if op == 'BitAnd' else None)
    def map_iter(ex, st, m, what):
        # the items of inverse_symbols are pairs (symbol, its inverse symbol): values (s, 1/s) with s != 0
        L = ex.fresh(I, 'n_inv'); ex.axioms.append(L >= 0)
        def elem(i):
            return VTuple(VR(ex.fresh(R, 'sym_value')), VR(ex.fresh(R, 'inv_value')))
        return L, elem
    cx.set_hook('map_iteration', map_iter)
    cx.invariant(0, lambda st: z3.BoolVal(True))
    cx.invariant(1, lambda st: toreal(st['expr']) == PR(st['row'].t, st['$i1'].t))
    cx.invariant(2, lambda st: z3.BoolVal(True))
    cx.invariant(3, lambda st: z3.BoolVal(True))
    cx.ensures(lambda st, r: z3.BoolVal(True))
