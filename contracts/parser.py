"""Sidecar contracts: inputparser/structure_transformer.py (C19): the omitted last probability of a choice."""
import z3, re
from pyvc.core import *
from pyvc.verify import contract
from pyvc import template as T

F = 'inputparser/structure_transformer.py'
VAL = z3.Function('token_value', REF, R)        # the value of the arithmetic text of a parse-tree token


@contract(F, 'StructureTransformer._decimal_to_fraction', ['C19'])
def decimal_to_fraction(cx):
    """the returned text is an operand in every context ('(...)') and denotes the same number as the argument; a decimal literal is replaced by
    the exact fraction numerator/denominator of fractions.Fraction."""
    val = cx.real('number_value')
    cx.param(number=V('text', [('hole', val.t, 'any', 'number')]))
    ISDEC = cx.bool('is_decimal_literal'); NUM, DEN = z3.Real('numerator'), z3.Real('denominator')
    cx.call('strip', lambda ex, st, r, a, kw: r)
    cx.call('fullmatch', lambda ex, st, r, a, kw: ISDEC, trusted=r're.fullmatch(\d*\.\d+|\d+\.\d*): an unsigned decimal literal')

    def fraction(ex, st, r, a, kw):
        st.pc.append(NUM / DEN == a[0].t[0][1])
        return new_obj(st, 'Fraction', numerator=V('real', NUM, atom=True), denominator=V('real', DEN, atom=True))
    cx.call('Fraction', fraction, trusted='fractions.Fraction(decimal literal): exact, numerator >= 0 and denominator > 0 printed as unsigned integers')
    cx.set_hook('fstring_text', lambda ex, st, x, src: V('text', [('hole', toreal(x), 'atom' if x.get('atom') else 'any', src)]) if x.kind in ('real', 'int', 'num') else None)

    def post(st, r):
        if r.kind != 'text': return z3.BoolVal(False)
        try:
            t, safe, _ = T.value(r.t); atomic, _ = T.is_atomic(r.t)
        except T.TemplateError:
            return z3.BoolVal(False)
        return z3.And(z3.BoolVal(safe and atomic), t == val.t)
    cx.ensures(post)


@contract(F, 'StructureTransformer._assign_categorical', ['C19'])
def assign_categorical(cx):
    """x = v1 {p1} ... vk {pk} v(k+1): the omitted last probability is the text '1-(p1)-...-(pk)', which denotes 1 - (p1 + ... + pk) for EVERY
    number k >= 1 of stated probabilities and every printed form of them; the assignment gets exactly one probability per value."""
    args = cx.ref('args'); polys = cx.seq('polynomials', DRef('Token')); probs = cx.seq('probabilities', DRef('Token'))
    cx.param(self=cx.obj('StructureTransformer'), args=args)
    n = z3.Length(probs.t)
    cx.requires(z3.Or(z3.Length(polys.t) == n, z3.Length(polys.t) == n + 1), n >= 1)      # grammar: arithm ("{" arithm "}" arithm)+ ["{" arithm "}"]
    ARG = z3.Function('args_item', I, REF); CH = z3.Function('children', REF, REF)
    cx.set_hook('index_hook', lambda ex, st, o, i: V('ref', ARG(toint(i))) if o.kind == 'ref' and o.t.eq(args.t) else None)
    cx.field('children', lambda ex, st, o: V('ref', CH(o.t)))

    def slices(ex, st, o, sl):
        if o.kind == 'ref' and o.t.eq(CH(ARG(z3.IntVal(2)))) and sl.upper is None and ast.unparse(sl.step or ast.Constant(1)) == '2':
            lo = ast.unparse(sl.lower) if sl.lower else '0'
            if lo == '0': return polys
            if lo == '1': return probs
        return None
    import ast
    cx.set_hook('slice_hook', slices)
    cx.trusted.append('children[0::2] / children[1::2]: the values and the stated probabilities of the choice, in order (grammar shape)')
    SUMP = z3.RecFunction('sum_of_probabilities', I, R); j = z3.Int('j')
    z3.RecAddDefinition(SUMP, [j], z3.If(j <= 0, z3.RealVal(0), SUMP(j - 1) + VAL(probs.t[j - 1])))
    cx.call('_decimal_to_fraction', lambda ex, st, r, a, kw: V('text', [('hole', VAL(a[0].t), 'atom', 'p')]),
            trusted='_decimal_to_fraction: contract above (atomic text, same value)')

    def join(ex, st, r, a, kw):
        if not (r.kind == 'str' and z3.is_string_value(r.t) and a[0].kind == 'comp'): raise OutOfReach('join')
        c = a[0]
        if not (c.x['src'].kind == 'seq' and c.x['src'].t.eq(probs.t)) or c.x['conds']: raise OutOfReach('join over something else than the stated probabilities')

        def item(term_for_val):
            tok = ex.fresh(REF, 'tok')
            cst = c.x['st'].fork(); cst.vars[c.x['target'].id] = V('ref', tok)
            t = ex.ev(c.x['elt'], cst)
            if t.kind != 'text': raise OutOfReach('joined items are not texts')
            return [(p[0], z3.substitute(p[1], (VAL(tok), term_for_val)), *p[2:]) if p[0] == 'hole' else p for p in t.t]
        return V('text', [('chain', r.t.as_string(), item)])
    cx.call('join', join)
    LAST = z3.Const('implicit_last_token', REF)

    def append(ex, st, r, a, kw):
        if a[0].kind != 'text' or not r.t.eq(probs.t): raise OutOfReach('append')
        try: obls = T.chain_obligations(a[0].t, lambda nm: ex.fresh(R, nm), lambda a1: 1 - a1, lambda acc, x: acc - x)
        except T.TemplateError as e_: raise OutOfReach(f'text shape outside the chain lemma: {e_}')
        for nm, g, wit in obls: ex.need(st, g, nm + '@0', 'ensures', witness=wit)
        # by L-chain with the two value obligations: the text denotes 1 - p1 - ... - pk
        st.pc.append(VAL(LAST) == 1 - SUMP(n))
        st.vars['probabilities'] = V('seq', z3.Concat(probs.t, z3.Unit(LAST)), ek=DRef('Token'))
        return VNone()
    cx.call('append', append)
    cx.lemmas.append(('L-chain: base and step value of a joined text give the value for every number of items (induction on the number of items)', None))
    cx.call('_check_probabilities', lambda ex, st, r, a, kw: VNone())
    cx.glob('settings.transform_categoricals', cx.bool('transform_categoricals'))
    res = lambda ex, st, r, a, kw: new_obj(st, 'Choice', variable=a[0], polynomials=a[1], probabilities=a[2])
    cx.call('_transform_categorical', res); cx.call('PolyAssignment', res)

    def post(st, r):
        h = st.heap[r.t]; ps = h['probabilities'].t
        return z3.And(h['polynomials'].t == polys.t, z3.Length(ps) == z3.Length(polys.t),
                      z3.If(z3.Length(polys.t) == n, ps == probs.t,
                            z3.And(z3.SubSeq(ps, 0, n) == probs.t, VAL(ps[n]) == 1 - SUMP(n))))
    cx.ensures(post)
    cx.replay = dict(kind='categorical_implicit_last')


@contract(F, 'StructureTransformer._check_probabilities', ['C19'])
def check_probabilities(cx):
    """a choice whose probabilities are all constants is refused exactly when one of them is negative or they do not add up to 1 (exactly: float
    literals are converted to the rationals they spell); a choice with a symbolic probability is accepted here."""
    probs = cx.seq('probabilities', DRef('Token'))
    cx.param(probabilities=probs)
    ISNUM = z3.Function('is_Number', R, B); ISFLOAT = z3.Function('is_Float', R, B)
    cx.call('_decimal_to_fraction', lambda ex, st, r, a, kw: VN(VAL(a[0].t)), trusted='sympify(_decimal_to_fraction(p)): the value of the text p (contract above); comparisons happen only under all(is_Number), where == and < are by value')
    cx.call('float_to_rational', lambda ex, st, r, a, kw: a[0], trusted='float_to_rational: the rational the float literal spells (C19 bounded twin)')
    cx.attr('is_Number', lambda ex, st, o: VB(ISNUM(toreal(o)))); cx.attr('is_Float', lambda ex, st, o: VB(ISFLOAT(toreal(o))))
    j = z3.Int('j')
    cx.set_hook('materialise', ('values',))
    cx.call('join', lambda ex, st, r, a, kw: V('str', ex.fresh(S, 'message')))       # only the error message

    def spec(st):
        vals = st['values']
        if vals.kind != 'seq': return None, None, None
        v = vals.t; n = z3.Length(probs.t)
        link = z3.And(z3.Length(v) == n, z3.ForAll([j], z3.Implies(z3.And(0 <= j, j < n), v[j] == VAL(probs.t[j]))))
        allnum = z3.ForAll([j], z3.Implies(z3.And(0 <= j, j < n), ISNUM(v[j])))
        neg = z3.Exists([j], z3.And(0 <= j, j < n, v[j] < 0))
        return link, z3.And(allnum, z3.Or(neg, SUMSEQ(v) > 1)), z3.And(allnum, z3.Or(neg, SUMSEQ(v) != 1))

    def post(st, r):        # accepted: not a constant vector that is negative somewhere or adds up to more than 1 (the property's clause)
        link, must_reject, may_reject = spec(st)
        return z3.BoolVal(False) if link is None else z3.And(link, z3.Not(must_reject))

    def exc(st, e):         # refused: only constant vectors that are not probability vectors (no valid choice is refused)
        link, must_reject, may_reject = spec(st)
        return z3.BoolVal(False) if link is None else z3.And(link, may_reject)
    cx.ensures(post); cx.raises(exc)


@contract(F, 'StructureTransformer._assign_simult', ['C19'])
def assign_simult(cx):
    """x1, ..., xk = e1, ..., ek  becomes  t1 = e1; ...; tk = ek; x1 = t1; ...; xk = tk  with k fresh temporaries, in this order: every right-hand
    side is evaluated before any of the variables is overwritten (the parallel meaning); malformed shapes are refused.
    Tokens are modelled by their text (two tokens are equal iff their texts are; a text literal is a distinguished token)."""
    args = cx.seq('args', DRef('Token'))
    TYPE = z3.Function('token_type', REF, REF); TGT = z3.Function('assign_target', REF, REF); SRC = z3.Function('assign_source', REF, REF)
    UNIQ = z3.Function('unique_name', I, REF)
    TEXT = lambda lit: z3.Const(f'text_{lit}', REF)
    pv = cx.set('program_variables', DRef()); av = cx.set('artificial_variables', DRef())
    cx.param(self=cx.obj('StructureTransformer', program_variables=pv, artificial_variables=av), args=args)
    n = z3.Length(args.t)
    cx.requires(n > 3)            # the caller (assign) dispatches here only for more than three children

    def floor(ex, st, a):          # int(x) for x >= 0: the integer k with k <= x < k + 1, as a named integer (keeps the queries linear and small)
        k = ex.fresh(I, 'floor'); st.pc += [z3.ToReal(k) <= a.t, a.t < z3.ToReal(k) + 1]; return VI(k)
    cx.set_hook('int_of_real', floor)
    lit = lambda v: v.kind == 'str' and z3.is_string_value(v.t)
    cx.set_hook('eq_hook', lambda ex, a, b: (a.t == TEXT(b.t.as_string())) if a.kind == 'ref' and lit(b) else ((b.t == TEXT(a.t.as_string())) if b.kind == 'ref' and lit(a) else None))
    cx.field('type', lambda ex, st, o: V('ref', TYPE(o.t))); cx.field('line', lambda ex, st, o: VI(0)); cx.field('column', lambda ex, st, o: VI(0))
    cx.call('get_unique_var', lambda ex, st, r, a, kw: V('ref', UNIQ(st['$i0'].t)), trusted='get_unique_var(name): a name used nowhere else (C20 bounded twin: counter)')
    cx.call('Token', lambda ex, st, r, a, kw: V('ref', TEXT(a[1].t.as_string())) if lit(a[1]) else a[1])
    cx.isinstance(lambda ex, st, o, cls: z3.Function('token_isinstance_' + re.sub(r'\W', '_', cls), REF, B)(o.t) if o.kind == 'ref' else z3.BoolVal(False))
    cx.call('sympify', lambda ex, st, r, a, kw: a[0]); cx.field('is_Number', lambda ex, st, o: VB(z3.Function('token_is_number', REF, B)(o.t)))

    def assign(ex, st, r, a, kw):
        sq = a[0]
        if sq.kind != 'seq': raise OutOfReach('assign')
        o = ex.fresh(REF, 'assignment')
        st.pc += [TGT(o) == z3.simplify(sq.t[0]), SRC(o) == z3.simplify(sq.t[2])]
        return V('ref', o)
    cx.call('assign', assign, trusted='StructureTransformer.assign([target, "=", value]): the assignment target = value')
    cx.set_hook('empty_kinds', {'assignments1': DSeq(DRef()), 'assignments2': DSeq(DRef())})
    j = z3.Int('j')

    def shape(st, a1, a2, upto):
        nv = st['num_vars'].t
        return z3.And(z3.Length(a1) == upto, z3.Length(a2) == upto,
                      z3.ForAll([j], z3.Implies(z3.And(0 <= j, j < upto),
                                                z3.And(TGT(a1[j]) == UNIQ(j), SRC(a1[j]) == args.t[nv + 1 + j], TGT(a2[j]) == args.t[j], SRC(a2[j]) == UNIQ(j),
                                                       TYPE(args.t[j]) == TEXT('VARIABLE')))))
    cx.invariant(0, lambda st: shape(st, st['assignments1'].t, st['assignments2'].t, st['$i0'].t))

    def post(st, r):        # the temporaries first (every right-hand side read before any variable is written), then the variables
        nv = st['num_vars'].t; a1, a2 = st['assignments1'].t, st['assignments2'].t
        return z3.And(2 * nv + 1 == n, args.t[nv] == TEXT('='), r.t == z3.Concat(a1, a2), shape(st, a1, a2, nv))
    cx.ensures(post)

    def exc(st, e):
        if 'num_vars' not in st.vars: return n % 2 == 0
        nv = st['num_vars'].t
        return z3.Or(args.t[nv] != TEXT('='), z3.Exists([j], z3.And(0 <= j, j < nv, TYPE(args.t[j]) != TEXT('VARIABLE'))))
    cx.raises(exc)
