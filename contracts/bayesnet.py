"""Sidecar contracts: bayesnet/code_generator.py (C15)."""
import z3
from pyvc.core import *
from pyvc.verify import contract, ind

F = 'bayesnet/code_generator.py'
SAN = z3.Function('sanitised', S, S)


@contract(F, 'CodeGenerator.__generate_mapping__', ['C15'])
def generate_mapping(cx):
    """distinct network variables get distinct loop variable names: every new name is chosen outside the set of names already handed out"""
    names = cx.seq('network_variable_names', DS)
    net = cx.obj('BayesNetwork', variables=V('keyseq', None, keys=names))
    me = cx.obj('CodeGenerator', network=net, polar_variable_names=V('map', None, empty=True))
    cx.param(self=me)
    j, k = z3.Int('j'), z3.Int('k')
    cx.requires(z3.ForAll([j, k], z3.Implies(z3.And(0 <= j, j < k, k < z3.Length(names.t)), names.t[j] != names.t[k])))      # dict keys are distinct
    cx.attr('keys', lambda ex, st, o: None)
    cx.call('keys', lambda ex, st, r, a, kw: r.x['keys'] if r.kind == 'keyseq' else NotImplemented)
    cx.call('lower', lambda ex, st, r, a, kw: r)
    cx.call('sub', lambda ex, st, r, a, kw: V('str', SAN(a[2].t)), trusted='re.sub: sanitised name (a function of the name)')
    empty = V('map', (z3.K(S, z3.StringVal('')), z3.K(S, z3.BoolVal(False))), kk=DS, vk=DS, size=z3.IntVal(0))
    cx.set_hook('empty_kinds', {'self.polar_variable_names': empty})

    def get_unique_name(ex, st, r, a, kw):
        existing, base = a
        res = ex.fresh(S, 'unique_name')
        kq = z3.Const('kq', S)
        if existing.kind == 'mapiter' and existing.x['what'] == 'values':
            arr, dom = existing.x['m'].t
            st.pc.append(z3.ForAll([kq], z3.Implies(z3.Select(dom, kq), z3.Select(arr, kq) != res)))      # contract of get_unique_name: result not among `existing`
        elif existing.kind == 'map':
            arr, dom = existing.t
            st.pc.append(z3.ForAll([kq], z3.Implies(z3.Select(dom, kq), kq != res)))                         # iterating a dict iterates its KEYS
        else:
            raise OutOfReach('get_unique_name on ' + existing.kind)
        return V('str', res)
    cx.call('get_unique_name', get_unique_name, trusted='bayesnet.common.get_unique_name(existing, base): a name not contained in `existing`')

    def inv(st):
        m = st.field(me, 'polar_variable_names'); arr, dom = m.t; i = st['$i0'].t
        a_, b_ = z3.Const('a_', S), z3.Const('b_', S)
        return z3.And(z3.ForAll([a_], z3.Select(dom, a_) == z3.Exists([j], z3.And(0 <= j, j < i, names.t[j] == a_))),
                      z3.ForAll([a_, b_], z3.Implies(z3.And(z3.Select(dom, a_), z3.Select(dom, b_), a_ != b_), z3.Select(arr, a_) != z3.Select(arr, b_))))
    cx.invariant(0, inv)

    def post(st, r):
        m = st.field(me, 'polar_variable_names'); arr, dom = m.t
        a_, b_ = z3.Const('a_', S), z3.Const('b_', S)
        return z3.ForAll([a_, b_], z3.Implies(z3.And(z3.Select(dom, a_), z3.Select(dom, b_), a_ != b_), z3.Select(arr, a_) != z3.Select(arr, b_)))
    cx.ensures(post)


@contract('bayesnet/transformer.py', 'NetworkTransformer.__add_table__', ['C15'])
def add_table(cx):
    """table notation: the CPT row of the r-th parent value combination (product order) is (table[r + i*rows] for i < domain size) -- own value
    slowest, parents in product order; a table of the wrong length or a row whose sum is outside the tolerance is refused"""
    table = cx.seq('table', DN); rows = cx.int('cpt_num_rows'); ds = cx.int('domain_size'); isnone = cx.bool('table_is_None')
    VALID = z3.Function('cpt_entry_sum_valid', z3.SeqSort(R), B)
    var = cx.obj('BayesVariable', domain_size=ds, parents=V('opaque'), name=cx.str('name'))
    tbl = V('seq', table.t, ek=DN, nullable=isnone.t)
    cx.param(self=cx.obj('NetworkTransformer', network=cx.ref('network')), variable=var, table=tbl)
    cx.requires(rows.t >= 1, ds.t >= 1)
    cx.call('reduce', lambda ex, st, r, a, kw: rows, trusted='reduce(mul, parent domain sizes, 1): number of parent value combinations')
    conds = cx.seq('parent_combinations', DRef())
    cx.requires(z3.Length(conds.t) == rows.t)
    cx.call('product', lambda ex, st, r, a, kw: conds, trusted='itertools.product(*parent_domains): all parent value combinations, in product order (that many)')
    cx.call('cpt_entry_sum_valid', lambda ex, st, r, a, kw: VB(VALID(a[0].t)), trusted='BayesNetwork.cpt_entry_sum_valid: |1 - sum| < tolerance')
    cx.call('BifFormatException', lambda ex, st, r, a, kw: V('exc', 'BifFormatException'))
    cx.call('tuple', lambda ex, st, r, a, kw: a[0])
    cx.set_hook('empty_kinds', {'probs': DSeq(DN)})
    i_ = z3.Int('i_')
    cx.lemmas.append(('L-index: 0 <= i < d and 0 <= r < R imply 0 <= r + i*R < d*R (instance assumed at the current index inside the loop invariant)', None))

    def set_entry(ex, st, r, a, kw):
        row = st['row'].t; probs = a[1]
        ex.need(st, z3.And(z3.Length(probs.t) == ds.t, VALID(probs.t),
                           z3.ForAll([i_], z3.Implies(z3.And(0 <= i_, i_ < ds.t), probs.t[i_] == table.t[row + i_ * rows.t]))), 'cpt_row.layout@0', 'ensures')
        return VNone()
    cx.call('cpt_set_entry', set_entry)

    def eq_none(ex, st, a, b): return None
    cx.invariant(0, lambda st: z3.BoolVal(True))
    cx.invariant(1, lambda st: dict(
        prove=z3.And(z3.Length(st['probs'].t) == st['$i1'].t, 0 <= st['row'].t, st['row'].t < rows.t,
                     z3.ForAll([i_], z3.Implies(z3.And(0 <= i_, i_ < st['$i1'].t), st['probs'].t[i_] == table.t[st['row'].t + i_ * rows.t]))),
        assume=z3.Implies(z3.And(0 <= st['$i1'].t, st['$i1'].t < ds.t),
                          z3.And(st['row'].t + st['$i1'].t * rows.t >= 0, st['row'].t + st['$i1'].t * rows.t < ds.t * rows.t))))
    cx.ensures(lambda st, r: z3.Or(isnone.t, z3.Length(table.t) == ds.t * rows.t))
    cx.raises(lambda st, e: z3.BoolVal(True))


@contract(F, 'CodeGenerator.__generate_assignment__', ['C15'])
def generate_assignment(cx):
    """the emitted choice for a CPT row is  name = 0 {p_0} 1 {p_1} ... (d-2) {p_(d-2)} (d-1)  -- EVERY value of the domain with the probability of its
    position in the row (the last one implicit), for every row: no entry is dropped or merged.  Texts are sequences of tokens (a literal piece, the
    decimal form of an integer, the printed form of a probability): equality of texts is equality of token sequences."""
    TOK = z3.DeclareSort('Token'); TS_ = z3.SeqSort(TOK)
    NAME = z3.Const('polar_name_of_variable', TOK); TOKINT = z3.Function('decimal', I, TOK); TOKP = z3.Function('printed_probability', R, TOK)
    lits = {}

    def lit(s_):
        if s_ not in lits: lits[s_] = z3.Const('literal_' + ''.join(ch if ch.isalnum() else '_%x_' % ord(ch) for ch in s_), TOK)
        return lits[s_]
    nd = cx.int('domain_size'); row = cx.seq('cpt_row', DN)
    cx.requires(nd.t >= 1, z3.Length(row.t) == nd.t)          # a CPT row has one probability per value of the domain (BIF transformer contracts)
    var = cx.obj('BayesVariable', name=V('varname', None), domain=V('domain', None), cpt=V('cpt', None))
    cx.param(self=cx.obj('CodeGenerator', polar_variable_names=V('names', None), network=cx.ref('network')), var=var, comb=cx.ref('comb'))
    cx.call('cpt_entry_sum_valid', lambda ex, st, r, a, kw: VB(ex.fresh(B, 'within_tolerance_of_1')))

    def toks(v):
        if v.kind == 'toks': return v.t
        if v.kind == 'str' and z3.is_string_value(v.t): return z3.Unit(lit(v.t.as_string()))
        raise OutOfReach('a text piece of unknown form')
    cx.set_hook('binop', lambda ex, st, op, a, b: V('toks', z3.Concat(toks(a), toks(b))) if (op == 'Add' and ('toks' in (a.kind, b.kind) or (a.kind == 'str' and b.kind == 'str'))) else None)

    def index(ex, st, o, i):
        if o.kind == 'names': return V('toks', z3.Unit(NAME))
        if o.kind == 'cpt': return row
        return None
    cx.set_hook('index_hook', index)
    cx.call('len', lambda ex, st, r, a, kw: nd if a[0].kind == 'domain' else NotImplemented)

    def str_(ex, st, r, a, kw):
        x = a[0]
        if x.kind == 'int': return V('toks', z3.Unit(TOKINT(x.t)))
        if x.kind in ('num', 'real'): return V('toks', z3.Unit(TOKP(toreal(x))))
        raise OutOfReach('str of ' + x.kind)
    cx.call('str', str_)
    i = z3.Int('i')
    ITEMS = z3.RecFunction('items_text', I, TS_)
    z3.RecAddDefinition(ITEMS, [i], z3.If(i <= 0, z3.Empty(TS_), z3.Concat(ITEMS(i - 1), z3.Unit(TOKINT(i - 1)), z3.Unit(lit(' {')), z3.Unit(TOKP(row.t[i - 1])), z3.Unit(lit('} ')))))
    head = z3.Concat(z3.Unit(NAME), z3.Unit(lit(' = ')))
    cx.invariant(0, lambda st: toks(st['assignment']) == z3.Concat(head, ITEMS(st['$i0'].t)) if st['assignment'].kind in ('toks', 'str') else z3.BoolVal(False))
    cx.ensures(lambda st, r: (toks(r) == z3.Concat(head, ITEMS(nd.t - 1), z3.Unit(TOKINT(nd.t - 1)))) if r.kind in ('toks', 'str') else z3.BoolVal(False))
