"""Sidecar contracts: bayesnet/code_generator.py (C15)."""
import z3
from pyvc.core import *
from pyvc.verify import contract, ind

F = 'bayesnet/code_generator.py'
SAN = z3.Function('sanitised', S, S)


@contract(F, 'CodeGenerator.__generate_mapping__', ['C15'])
def generate_mapping(cx):
    """distinct network variables get distinct loop variable names: every new name is chosen outside the set of names already handed out"""
    names = cx.seq('network_variable_names', DS)
    net = cx.obj('BayesNetwork', variables=V('keyseq', None, keys=names))
    me = cx.obj('CodeGenerator', network=net, polar_variable_names=V('map', None, empty=True))
    cx.param(self=me)
    j, k = z3.Int('j'), z3.Int('k')
    cx.requires(z3.ForAll([j, k], z3.Implies(z3.And(0 <= j, j < k, k < z3.Length(names.t)), names.t[j] != names.t[k])))      # dict keys are distinct
    cx.attr('keys', lambda ex, st, o: None)
    cx.call('keys', lambda ex, st, r, a, kw: r.x['keys'] if r.kind == 'keyseq' else NotImplemented)
    cx.call('lower', lambda ex, st, r, a, kw: r)
    cx.call('sub', lambda ex, st, r, a, kw: V('str', SAN(a[2].t)), trusted='re.sub: sanitised name (a function of the name)')
    empty = V('map', (z3.K(S, z3.StringVal('')), z3.K(S, z3.BoolVal(False))), kk=DS, vk=DS, size=z3.IntVal(0))
    cx.set_hook('empty_kinds', {'self.polar_variable_names': empty})

    def get_unique_name(ex, st, r, a, kw):
        existing, base = a
        res = ex.fresh(S, 'unique_name')
        kq = z3.Const('kq', S)
        if existing.kind == 'mapiter' and existing.x['what'] == 'values':
            arr, dom = existing.x['m'].t
            st.pc.append(z3.ForAll([kq], z3.Implies(z3.Select(dom, kq), z3.Select(arr, kq) != res)))      # contract of get_unique_name: result not among `existing`
        elif existing.kind == 'map':
            arr, dom = existing.t
            st.pc.append(z3.ForAll([kq], z3.Implies(z3.Select(dom, kq), kq != res)))                         # iterating a dict iterates its KEYS
        else:
            raise OutOfReach('get_unique_name on ' + existing.kind)
        return V('str', res)
    cx.call('get_unique_name', get_unique_name, trusted='bayesnet.common.get_unique_name(existing, base): a name not contained in `existing`')

    def inv(st):
        m = st.field(me, 'polar_variable_names'); arr, dom = m.t; i = st['$i0'].t
        a_, b_ = z3.Const('a_', S), z3.Const('b_', S)
        return z3.And(z3.ForAll([a_], z3.Select(dom, a_) == z3.Exists([j], z3.And(0 <= j, j < i, names.t[j] == a_))),
                      z3.ForAll([a_, b_], z3.Implies(z3.And(z3.Select(dom, a_), z3.Select(dom, b_), a_ != b_), z3.Select(arr, a_) != z3.Select(arr, b_))))
    cx.invariant(0, inv)

    def post(st, r):
        m = st.field(me, 'polar_variable_names'); arr, dom = m.t
        a_, b_ = z3.Const('a_', S), z3.Const('b_', S)
        return z3.ForAll([a_, b_], z3.Implies(z3.And(z3.Select(dom, a_), z3.Select(dom, b_), a_ != b_), z3.Select(arr, a_) != z3.Select(arr, b_)))
    cx.ensures(post)
