"""Sidecar contracts: bayesnet/code_generator.py (C15)."""
import z3
from pyvc.core import *
from pyvc.verify import contract, ind

F = 'bayesnet/code_generator.py'
SAN = z3.Function('sanitised', S, S)


@contract(F, 'CodeGenerator.__generate_mapping__', ['C15'])
def generate_mapping(cx):
    """distinct network variables get distinct loop variable names: every new name is chosen outside the set of names already handed out"""
    names = cx.seq('network_variable_names', DS)
    net = cx.obj('BayesNetwork', variables=V('keyseq', None, keys=names))
    me = cx.obj('CodeGenerator', network=net, polar_variable_names=V('map', None, empty=True))
    cx.param(self=me)
    j, k = z3.Int('j'), z3.Int('k')
    cx.requires(z3.ForAll([j, k], z3.Implies(z3.And(0 <= j, j < k, k < z3.Length(names.t)), names.t[j] != names.t[k])))      # dict keys are distinct
    cx.attr('keys', lambda ex, st, o: None)
    cx.call('keys', lambda ex, st, r, a, kw: r.x['keys'] if r.kind == 'keyseq' else NotImplemented)
    cx.call('lower', lambda ex, st, r, a, kw: r)
    cx.call('sub', lambda ex, st, r, a, kw: V('str', SAN(a[2].t)), trusted='re.sub: sanitised name (a function of the name)')
    empty = V('map', (z3.K(S, z3.StringVal('')), z3.K(S, z3.BoolVal(False))), kk=DS, vk=DS, size=z3.IntVal(0))
    cx.set_hook('empty_kinds', {'self.polar_variable_names': empty})

    def get_unique_name(ex, st, r, a, kw):
        existing, base = a
        res = ex.fresh(S, 'unique_name')
        kq = z3.Const('kq', S)
        if existing.kind == 'mapiter' and existing.x['what'] == 'values':
            arr, dom = existing.x['m'].t
            st.pc.append(z3.ForAll([kq], z3.Implies(z3.Select(dom, kq), z3.Select(arr, kq) != res)))      # contract of get_unique_name: result not among `existing`
        elif existing.kind == 'map':
            arr, dom = existing.t
            st.pc.append(z3.ForAll([kq], z3.Implies(z3.Select(dom, kq), kq != res)))                         # iterating a dict iterates its KEYS
        else:
            raise OutOfReach('get_unique_name on ' + existing.kind)
        return V('str', res)
    cx.call('get_unique_name', get_unique_name, trusted='bayesnet.common.get_unique_name(existing, base): a name not contained in `existing`')

    def inv(st):
        m = st.field(me, 'polar_variable_names'); arr, dom = m.t; i = st['$i0'].t
        a_, b_ = z3.Const('a_', S), z3.Const('b_', S)
        return z3.And(z3.ForAll([a_], z3.Select(dom, a_) == z3.Exists([j], z3.And(0 <= j, j < i, names.t[j] == a_))),
                      z3.ForAll([a_, b_], z3.Implies(z3.And(z3.Select(dom, a_), z3.Select(dom, b_), a_ != b_), z3.Select(arr, a_) != z3.Select(arr, b_))))
    cx.invariant(0, inv)

    def post(st, r):
        m = st.field(me, 'polar_variable_names'); arr, dom = m.t
        a_, b_ = z3.Const('a_', S), z3.Const('b_', S)
        return z3.ForAll([a_, b_], z3.Implies(z3.And(z3.Select(dom, a_), z3.Select(dom, b_), a_ != b_), z3.Select(arr, a_) != z3.Select(arr, b_)))
    cx.ensures(post)


@contract('bayesnet/transformer.py', 'NetworkTransformer.__add_table__', ['C15'])
def add_table(cx):
    """table notation: the CPT row of the r-th parent value combination (product order) is (table[r + i*rows] for i < domain size) -- own value
    slowest, parents in product order; a table of the wrong length or a row whose sum is outside the tolerance is refused"""
    table = cx.seq('table', DN); rows = cx.int('cpt_num_rows'); ds = cx.int('domain_size'); isnone = cx.bool('table_is_None')
    VALID = z3.Function('cpt_entry_sum_valid', z3.SeqSort(R), B)
    var = cx.obj('BayesVariable', domain_size=ds, parents=V('opaque'), name=cx.str('name'))
    tbl = V('seq', table.t, ek=DN, nullable=isnone.t)
    cx.param(self=cx.obj('NetworkTransformer', network=cx.ref('network')), variable=var, table=tbl)
    cx.requires(rows.t >= 1, ds.t >= 1)
    cx.call('reduce', lambda ex, st, r, a, kw: rows, trusted='reduce(mul, parent domain sizes, 1): number of parent value combinations')
    conds = cx.seq('parent_combinations', DRef())
    cx.requires(z3.Length(conds.t) == rows.t)
    cx.call('product', lambda ex, st, r, a, kw: conds, trusted='itertools.product(*parent_domains): all parent value combinations, in product order (that many)')
    cx.call('cpt_entry_sum_valid', lambda ex, st, r, a, kw: VB(VALID(a[0].t)), trusted='BayesNetwork.cpt_entry_sum_valid: |1 - sum| < tolerance')
    cx.call('BifFormatException', lambda ex, st, r, a, kw: V('exc', 'BifFormatException'))
    cx.call('tuple', lambda ex, st, r, a, kw: a[0])
    cx.set_hook('empty_kinds', {'probs': DSeq(DN)})
    i_ = z3.Int('i_')
    cx.lemmas.append(('L-index: 0 <= i < d and 0 <= r < R imply 0 <= r + i*R < d*R (instance assumed at the current index inside the loop invariant)', None))

    def set_entry(ex, st, r, a, kw):
        row = st['row'].t; probs = a[1]
        ex.need(st, z3.And(z3.Length(probs.t) == ds.t, VALID(probs.t),
                           z3.ForAll([i_], z3.Implies(z3.And(0 <= i_, i_ < ds.t), probs.t[i_] == table.t[row + i_ * rows.t]))), 'cpt_row.layout@0', 'ensures')
        return VNone()
    cx.call('cpt_set_entry', set_entry)

    def eq_none(ex, st, a, b): return None
    cx.invariant(0, lambda st: z3.BoolVal(True))
    cx.invariant(1, lambda st: dict(
        prove=z3.And(z3.Length(st['probs'].t) == st['$i1'].t, 0 <= st['row'].t, st['row'].t < rows.t,
                     z3.ForAll([i_], z3.Implies(z3.And(0 <= i_, i_ < st['$i1'].t), st['probs'].t[i_] == table.t[st['row'].t + i_ * rows.t]))),
        assume=z3.Implies(z3.And(0 <= st['$i1'].t, st['$i1'].t < ds.t),
                          z3.And(st['row'].t + st['$i1'].t * rows.t >= 0, st['row'].t + st['$i1'].t * rows.t < ds.t * rows.t))))
    cx.ensures(lambda st, r: z3.Or(isnone.t, z3.Length(table.t) == ds.t * rows.t))
    cx.raises(lambda st, e: z3.BoolVal(True))
