"""Sidecar contracts: utils/statistics.py, utils/identifiers.py, program/assignment/functional_assignment.py, program/type/finite.py."""
import z3
from pyvc.core import *
from pyvc.verify import contract, ind

FACT = z3.Function('factorial', I, I)


@contract('utils/statistics.py', 'comb', ['C11'])
def comb_c(cx):
    n, k = cx.int('n'), cx.int('k')
    cx.param(n=n, k=k)
    cx.requires(n.t >= 0, k.t >= 0)
    cx.call('factorial', lambda ex, st, r, a, kw: VI(FACT(toint(a[0]))), trusted='math.factorial(m) = m! (positive integer)')
    cx.axiom(z3.ForAll([z3.Int('m')], FACT(z3.Int('m')) >= 1))
    # binomial coefficient by its defining quotient n! / (k! (n-k)!) in exact integer arithmetic; 0 above the diagonal
    cx.ensures(lambda st, r: toint(r) == z3.If(k.t > n.t, 0, FACT(n.t) / (FACT(k.t) * FACT(n.t - k.t))))
    cx.lemmas.append(('L-binom-div: k!(n-k)! divides n! (so the integer quotient is the binomial coefficient)', None))
    cx.replay = dict(kind='comb')


@contract('utils/identifiers.py', 'get_unique_var', ['C20', 'C02'])
def get_unique_var_c(cx):
    name = cx.str('name'); cnt = cx.int('_count_unique_var')
    cx.param(name=name, _count_unique_var=cnt)
    cx.requires(cnt.t >= 0)
    # fresh names: "_" + name + str(counter), counter strictly increases => all returned names are pairwise distinct (for one name prefix)
    cx.ensures(lambda st, r: z3.And(r.t == z3.Concat(z3.StringVal('_'), name.t, z3.IntToStr(cnt.t)), toint(st['_count_unique_var']) == cnt.t + 1))
    cx.note('frame: the only process-global state written is _count_unique_var (checked by the C20 frame scan over the whole repository)')


@contract('program/assignment/functional_assignment.py', 'FunctionalAssignment.get_exp_moment', ['C13'])
def get_exp_moment_c(cx):
    """E(X^a exp(cX)): refused whenever the mgf does not exist at c -- for EVERY id power a; otherwise the a-th derivative of the mgf at c."""
    EX = z3.Function('mgf_exists_at', I, B); MGF = z3.Function('mgf', I, R); DMGF = z3.Function('d_mgf', I, I, R); CONV = z3.Function('convert_func_moment', R, R)
    powers = cx.map('func_powers', DS, DI)
    dist = cx.ref('dist', 'Distribution')
    cx.param(cls=cx.ref('cls'), dist=dist, func_powers=powers)
    arr, dom = powers.t
    e = z3.If(z3.Select(dom, z3.StringVal('Exp')), z3.Select(arr, z3.StringVal('Exp')), 0)
    a = z3.If(z3.Select(dom, z3.StringVal('Id')), z3.Select(arr, z3.StringVal('Id')), 0)
    cx.call('mgf_exists_at', lambda ex, st, r, args, kw: VB(EX(toint(args[0]))), trusted='Distribution.mgf_exists_at (C08 contract: true => inside the convergence strip)')
    cx.call('mgf', lambda ex, st, r, args, kw: VR(MGF(toint(args[0]))) if args[0].kind == 'int' else V('opaque'), trusted='Distribution.mgf')
    cx.call('SSymbol', lambda ex, st, r, args, kw: V('opaque'))
    cx.call('diff', lambda ex, st, r, args, kw: V('opaque', None, order=args[2]))
    cx.call('xreplace', lambda ex, st, r, args, kw: VR(DMGF(toint(r.get('order')), e)), trusted='sympy diff(mgf(t), t, a).xreplace({t: c}) = a-th derivative of the mgf at c')
    cx.call('convert_func_moment', lambda ex, st, r, args, kw: VR(CONV(toreal(args[0]))), trusted='convert_func_moment (rounding contract, C13 bounded)')
    cx.call('FunctionalAssignmentException', lambda ex, st, r, args, kw: V('exc', 'FunctionalAssignmentException'))
    cx.ensures(lambda st, r: z3.And(EX(e), toreal(r) == CONV(z3.If(a == 0, MGF(e), DMGF(a, e)))))
    cx.raises(lambda st, x: z3.Not(EX(e)))


@contract('program/type/finite.py', 'Finite.reduce_power', ['C03', 'C05'])
def finite_reduce_power(cx):
    """for every value x of the variable inside its finite type: result(x) == x**power"""
    vals = cx.set('values', DN); x = cx.real('x'); p = cx.int('power'); w = cx.int('w'); binary = cx.bool('binary')
    RP = z3.Function('reduced_poly_at', R, R)        # value of the polynomial returned by get_reduced_powers at tmp_var := its argument
    self = cx.obj('Finite', values=vals, variable=x, binary=binary, _ordered_values=cx.seq('ordered', DN))
    cx.param(self=self, power=V('num', z3.ToReal(p.t), integral=True))
    cx.requires(p.t >= 0, 0 <= w.t, w.t < z3.Length(vals.t), vals.t[w.t] == x.t)
    # class invariant established by Finite.__init__ (contract below): binary => every value is 0 or 1
    cx.requires(z3.Implies(binary.t, z3.Or(x.t == 0, x.t == 1)))
    # contract of utils.get_reduced_powers (bounded C03 check): the returned polynomial agrees with v**power on every value v of the type
    cx.call('get_reduced_powers', lambda ex, st, r, a, kw: VTuple(V('opaque', None, poly=True), V('opaque', None, tmp=True)),
            trusted='get_reduced_powers(values, power): polynomial q(t) with q(v) == v**power for every v in values (Vandermonde interpolation; bounded check in C03)')
    cx.call('xreplace', lambda ex, st, r, a, kw: VR(RP(x.t)), trusted='xreplace({tmp: variable}): value of q at the value of the variable')
    cx.axiom(z3.Implies(z3.And(0 <= w.t, w.t < z3.Length(vals.t)), RP(vals.t[w.t]) == POW(vals.t[w.t], p.t)))
    cx.set_hook('int_of_real', lambda ex, st, a: VI(z3.ToInt(a.t)))
    cx.ensures(lambda st, r: toreal(r) == POW(x.t, p.t))
    for ax in (z3.Implies(p.t == 0, POW(x.t, p.t) == 1), z3.Implies(x.t == 1, POW(x.t, p.t) == 1), z3.Implies(z3.And(x.t == 0, p.t > 0), POW(x.t, p.t) == 0),
               z3.Implies(p.t == 1, POW(x.t, p.t) == x.t)):
        cx.axiom(ax)
