"""Sidecar contracts: utils/statistics.py, utils/identifiers.py, program/assignment/functional_assignment.py, program/type/finite.py."""
import z3
from pyvc.core import *
from pyvc.verify import contract, ind

FACT = z3.Function('factorial', I, I)


@contract('utils/statistics.py', 'comb', ['C11'])
def comb_c(cx):
    n, k = cx.int('n'), cx.int('k')
    cx.param(n=n, k=k)
    cx.requires(n.t >= 0, k.t >= 0)
    cx.call('factorial', lambda ex, st, r, a, kw: VI(FACT(toint(a[0]))), trusted='math.factorial(m) = m! (positive integer)')
    cx.axiom(z3.ForAll([z3.Int('m')], FACT(z3.Int('m')) >= 1))
    # binomial coefficient by its defining quotient n! / (k! (n-k)!) in exact integer arithmetic; 0 above the diagonal
    cx.ensures(lambda st, r: toint(r) == z3.If(k.t > n.t, 0, FACT(n.t) / (FACT(k.t) * FACT(n.t - k.t))))
    cx.lemmas.append(('L-binom-div: k!(n-k)! divides n! (so the integer quotient is the binomial coefficient)', None))
    cx.replay = dict(kind='comb')


@contract('utils/identifiers.py', 'get_unique_var', ['C20', 'C02'])
def get_unique_var_c(cx):
    name = cx.str('name'); cnt = cx.int('_count_unique_var')
    cx.param(name=name, _count_unique_var=cnt)
    cx.requires(cnt.t >= 0)
    # fresh names: "_" + name + str(counter), counter strictly increases => all returned names are pairwise distinct (for one name prefix)
    cx.ensures(lambda st, r: z3.And(r.t == z3.Concat(z3.StringVal('_'), name.t, z3.IntToStr(cnt.t)), toint(st['_count_unique_var']) == cnt.t + 1))
    cx.note('frame: the only process-global state written is _count_unique_var (checked by the C20 frame scan over the whole repository)')


@contract('program/assignment/functional_assignment.py', 'FunctionalAssignment.get_exp_moment', ['C13'])
def get_exp_moment_c(cx):
    """E(X^a exp(cX)): refused whenever the mgf does not exist at c -- for EVERY id power a; otherwise the a-th derivative of the mgf at c."""
    EX = z3.Function('mgf_exists_at', I, B); MGF = z3.Function('mgf', I, R); DMGF = z3.Function('d_mgf', I, I, R); CONV = z3.Function('convert_func_moment', R, R)
    powers = cx.map('func_powers', DS, DI)
    dist = cx.ref('dist', 'Distribution')
    cx.param(cls=cx.ref('cls'), dist=dist, func_powers=powers)
    arr, dom = powers.t
    e = z3.If(z3.Select(dom, z3.StringVal('Exp')), z3.Select(arr, z3.StringVal('Exp')), 0)
    a = z3.If(z3.Select(dom, z3.StringVal('Id')), z3.Select(arr, z3.StringVal('Id')), 0)
    cx.call('mgf_exists_at', lambda ex, st, r, args, kw: VB(EX(toint(args[0]))), trusted='Distribution.mgf_exists_at (C08 contract: true => inside the convergence strip)')
    cx.call('mgf', lambda ex, st, r, args, kw: VR(MGF(toint(args[0]))) if args[0].kind == 'int' else V('opaque'), trusted='Distribution.mgf')
    cx.call('SSymbol', lambda ex, st, r, args, kw: V('opaque'))
    cx.call('diff', lambda ex, st, r, args, kw: V('opaque', None, order=args[2]))
    kq = z3.String('kq')
    cx.requires(z3.ForAll([kq], z3.Implies(z3.Select(dom, kq), z3.Select(arr, kq) >= 1)))      # DistAssignment._get_mixed_func_moment: only powers >= 1 are entered
    cx.requires(z3.Select(dom, z3.StringVal('Exp')))          # get_func_moment (contract below) dispatches here only when an Exp power is present

    def xreplace(ex, st, r, args, kw):
        # a closed form of the mgf may be a Piecewise that is constant at 0 (Beta): its derivative is only the derivative of the mgf away from 0 (D24)
        ex.need(st, e != 0, 'derivative-of-closed-form-away-from-0@0', 'safety')
        return VR(DMGF(toint(r.get('order')), e))
    cx.call('xreplace', xreplace, trusted='sympy diff(mgf(t), t, a).xreplace({t: c}) = a-th derivative of the mgf at c, for c != 0')
    cx.call('convert_func_moment', lambda ex, st, r, args, kw: VR(CONV(toreal(args[0]))), trusted='convert_func_moment (rounding contract, C13 bounded)')
    cx.call('FunctionalAssignmentException', lambda ex, st, r, args, kw: V('exc', 'FunctionalAssignmentException'))
    cx.ensures(lambda st, r: z3.And(EX(e), toreal(r) == CONV(z3.If(a == 0, MGF(e), DMGF(a, e)))))
    cx.raises(lambda st, x: z3.Not(EX(e)))


@contract('program/type/finite.py', 'Finite.reduce_power', ['C03', 'C05'])
def finite_reduce_power(cx):
    """for every value x of the variable inside its finite type: result(x) == x**power"""
    vals = cx.set('values', DN); x = cx.real('x'); p = cx.int('power'); w = cx.int('w'); binary = cx.bool('binary')
    RP = z3.Function('reduced_poly_at', R, R)        # value of the polynomial returned by get_reduced_powers at tmp_var := its argument
    self = cx.obj('Finite', values=vals, variable=x, binary=binary, _ordered_values=cx.seq('ordered', DN))
    cx.param(self=self, power=V('num', z3.ToReal(p.t), integral=True))
    cx.requires(p.t >= 0, 0 <= w.t, w.t < z3.Length(vals.t), vals.t[w.t] == x.t)
    # class invariant established by Finite.__init__ (contract below): binary => every value is 0 or 1
    cx.requires(z3.Implies(binary.t, z3.Or(x.t == 0, x.t == 1)))
    # contract of utils.get_reduced_powers (bounded C03 check): the returned polynomial agrees with v**power on every value v of the type
    cx.call('get_reduced_powers', lambda ex, st, r, a, kw: VTuple(V('opaque', None, poly=True), V('opaque', None, tmp=True)),
            trusted='get_reduced_powers(values, power): polynomial q(t) with q(v) == v**power for every v in values (Vandermonde interpolation; bounded check in C03)')
    cx.call('xreplace', lambda ex, st, r, a, kw: VR(RP(x.t)), trusted='xreplace({tmp: variable}): value of q at the value of the variable')
    cx.axiom(z3.Implies(z3.And(0 <= w.t, w.t < z3.Length(vals.t)), RP(vals.t[w.t]) == POW(vals.t[w.t], p.t)))
    cx.set_hook('int_of_real', lambda ex, st, a: VI(z3.ToInt(a.t)))
    cx.ensures(lambda st, r: toreal(r) == POW(x.t, p.t))
    for ax in (z3.Implies(p.t == 0, POW(x.t, p.t) == 1), z3.Implies(x.t == 1, POW(x.t, p.t) == 1), z3.Implies(z3.And(x.t == 0, p.t > 0), POW(x.t, p.t) == 0),
               z3.Implies(p.t == 1, POW(x.t, p.t) == x.t)):
        cx.axiom(ax)


BIN = z3.Function('binomial', I, I, R)


def moments_map(cx):
    N = cx.int('N')
    m = cx.map('moments', DI, DR, size=N.t)
    arr, dom = m.t
    q = z3.Int('q')
    cx.requires(N.t >= 1, z3.ForAll([q], z3.Select(dom, q) == z3.And(1 <= q, q <= N.t)))
    return N, m, arr


@contract('utils/statistics.py', 'raw_moments_to_centrals', ['C11'])
def raw_to_centrals(cx):
    """c_1 = 0 and for 2 <= i <= N:  c_i = sum_{j=0..i} C(i,j) (-1)^(i-j) m_j m_1^(i-j)   (binomial expansion of E[(X - m_1)^i], m_0 = 1)"""
    N, m, arr = moments_map(cx)
    cx.param(moments=m)
    cx.call('comb', lambda ex, st, r, a, kw: VR(BIN(toint(a[0]), toint(a[1]))), trusted='comb(i, j) = binomial coefficient (contract above)')
    m1 = z3.Select(arr, 1)
    mj = lambda j: z3.If(j > 0, z3.Select(arr, j), z3.RealVal(1))
    CS = z3.RecFunction('central_sum', I, I, R); i_, j_ = z3.Int('i_'), z3.Int('j_')
    z3.RecAddDefinition(CS, [i_, j_], z3.If(j_ <= 0, z3.RealVal(0), CS(i_, j_ - 1) + BIN(i_, j_ - 1) * POW(z3.RealVal(-1), i_ - (j_ - 1)) * mj(j_ - 1) * POW(m1, i_ - (j_ - 1))))
    q = z3.Int('q')
    empty = V('map', (z3.K(I, z3.RealVal(0)), z3.K(I, z3.BoolVal(False))), kk=DI, vk=DR, size=z3.IntVal(0))

    def outer(st):
        i = 2 + st['$i0'].t; c = st['centrals']; carr, cdom = c.t
        return z3.And(z3.Select(cdom, 1), z3.Select(carr, 1) == 0,
                      z3.ForAll([q], z3.Implies(z3.And(2 <= q, q < i), z3.And(z3.Select(cdom, q), z3.Select(carr, q) == CS(q, q + 1)))))
    cx.invariant(0, outer)

    def inner(st):
        i = st['i'].t
        c = st['centrals']; carr, cdom = c.t
        return z3.And(toreal(st['c_i']) == CS(i, st['$i1'].t), z3.Select(cdom, 1), z3.Select(carr, 1) == 0,
                      z3.ForAll([q], z3.Implies(z3.And(2 <= q, q < i), z3.And(z3.Select(cdom, q), z3.Select(carr, q) == CS(q, q + 1)))))
    cx.invariant(1, inner)

    def post(st, r):
        rarr, rdom = r.t
        return z3.And(z3.Select(rarr, 1) == 0, z3.ForAll([q], z3.Implies(z3.And(2 <= q, q <= N.t), z3.And(z3.Select(rdom, q), z3.Select(rarr, q) == CS(q, q + 1)))))
    cx.ensures(post)
    cx.lemmas.append(('L-moments: the binomial sum equals E[(X - E X)^i] (binomial theorem + linearity; decided per order by the C11 symbolic-run)', None))


@contract('utils/statistics.py', 'raw_moments_to_cumulants', ['C11'])
def raw_to_cumulants(cx):
    """kappa_i = m_i - sum_{k=1..i-1} C(i-1,k-1) kappa_k m_{i-k}   (the standard moment/cumulant recursion), for 1 <= i <= N"""
    N, m, arr = moments_map(cx)
    cx.param(moments=m)
    cx.call('comb', lambda ex, st, r, a, kw: VR(BIN(toint(a[0]), toint(a[1]))), trusted='comb(i, j) = binomial coefficient (contract above)')
    KAP = z3.RecFunction('kappa', I, R); KS = z3.RecFunction('kappa_sum', I, I, R); i_, g_ = z3.Int('i_'), z3.Int('g_')
    # KS(i, g) = sum_{k=1..g} C(i-1,k-1) kappa_k m_{i-k}
    z3.RecAddDefinition(KS, [i_, g_], z3.If(g_ <= 0, z3.RealVal(0), KS(i_, g_ - 1) + BIN(i_ - 1, g_ - 1) * KAP(g_) * z3.Select(arr, i_ - g_)))
    z3.RecAddDefinition(KAP, [i_], z3.Select(arr, i_) - KS(i_, i_ - 1))
    q = z3.Int('q')
    cx.set_hook('empty_kinds', {'cumulants': V('map', (z3.K(I, z3.RealVal(0)), z3.K(I, z3.BoolVal(False))), kk=DI, vk=DR, size=z3.IntVal(0))})

    def known(st, i):
        carr, cdom = st['cumulants'].t
        return z3.ForAll([q], z3.Implies(z3.And(1 <= q, q < i), z3.And(z3.Select(cdom, q), z3.Select(carr, q) == KAP(q))))
    cx.invariant(0, lambda st: known(st, 1 + st['$i0'].t))
    cx.invariant(1, lambda st: z3.And(known(st, st['i'].t), 1 <= st['i'].t, st['i'].t <= N.t,
                                      toreal(st['c_i']) == z3.Select(arr, st['i'].t) - KS(st['i'].t, st['$i1'].t)))

    def post(st, r):
        rarr, rdom = r.t
        return z3.ForAll([q], z3.Implies(z3.And(1 <= q, q <= N.t), z3.And(z3.Select(rdom, q), z3.Select(rarr, q) == KAP(q))))
    cx.ensures(post)
    cx.lemmas.append(('L-cumulants: the recursion defines the cumulants k! [t^k] log E[e^{tX}] (decided per order by the C11 symbolic-run)', None))


SETTINGS = ['transform_categoricals', 'cond2arithm', 'disable_type_inference', 'type_fp_iterations', 'numeric_roots', 'numeric_croots', 'numeric_eps',
            'trivial_guard', 'exact_func_moments']


@contract('cli/argument_parser.py', '_set_settings', ['C17', 'C20'])
def set_settings(cx):
    """every command-line option reaches exactly the setting of the same name"""
    vals = {n: cx.int('arg_' + n) for n in SETTINGS}          # option values as opaque tokens (Int): only their identity matters
    cx.param(args=cx.obj('Namespace', **vals))
    cx.ensures(lambda st, r: z3.And(*[st[f'settings.{n}'].t == vals[n].t for n in SETTINGS]))
    cx.note('frame: the function contains only these nine stores (any other process-global write is reported by the C20 frame scan)')


@contract('cli/common.py', 'get_moment_given_termination', ['C09'])
def moment_given_termination(cx):
    """E[M | terminated] sequence = E[M * [not guard]] / E[[not guard]]  with [not guard] the indicator polynomial of the negated ORIGINAL loop guard"""
    NEG = z3.Function('negated_guard_indicator', REF, R); MP = z3.Function('moment_of_poly', R, R); EX = z3.Function('is_exact_of_poly', R, B)
    monom = cx.real('monom'); guard = cx.ref('original_loop_guard')
    prog = cx.obj('Program', original_loop_guard=guard)
    cx.param(monom=monom, solvers=cx.ref('solvers'), rec_builder=cx.ref('rb'), cli_args=cx.ref('args'), program=prog)

    def not_(ex, st, r, a, kw):
        return V('ref', ex.fresh(REF, 'not_guard'), of=a[0])
    cx.call('Not', not_)
    cx.call('to_arithm', lambda ex, st, r, a, kw: VR(NEG(r.x['of'].t)), trusted='Not(guard).to_arithm = [guard does not hold] (contracts/condition.py)')
    cx.call('get_moment_poly', lambda ex, st, r, a, kw: VTuple(VR(MP(toreal(a[0]))), VB(EX(toreal(a[0])))), trusted='get_moment_poly: closed form of E(poly) by linearity (C01)')
    cx.call('sympy_sympify', lambda ex, st, r, a, kw: a[0])
    g = NEG(guard.t)
    cx.requires(MP(g) != 0)
    cx.ensures(lambda st, r: z3.And(toreal(r.t[0]) == MP(monom.t * g) / MP(g), truthy(r.t[1]) == z3.And(EX(g), EX(monom.t * g))))


@contract('program/assignment/functional_assignment.py', 'FunctionalAssignment.get_func_moment', ['C13'])
def get_func_moment_c(cx):
    """dispatch: Sin/Cos together with Exp is refused; trig powers go to get_trig_moment, Exp powers to get_exp_moment; nothing else is answered"""
    TRIG = z3.Const('trig_moment', R); EXP = z3.Const('exp_moment', R)
    powers = cx.map('func_powers', DS, DI)
    arr, dom = powers.t
    has = lambda k: z3.Select(dom, z3.StringVal(k))
    cx.param(cls=cx.ref('cls'), dist=cx.ref('dist'), func_powers=powers)
    cx.call('get_trig_moment', lambda ex, st, r, a, kw: VR(TRIG), trusted='get_trig_moment (bounded C13 check against quadrature)')
    cx.call('get_exp_moment', lambda ex, st, r, a, kw: VR(EXP), trusted='get_exp_moment contract (above)')
    cx.call('FunctionalAssignmentException', lambda ex, st, r, a, kw: V('exc', 'FunctionalAssignmentException'))
    trig = z3.Or(has('Sin'), has('Cos')); exp_ = has('Exp')
    cx.ensures(lambda st, r: z3.And(z3.Not(z3.And(trig, exp_)), z3.Or(trig, exp_), toreal(r) == z3.If(trig, TRIG, EXP)))
    cx.raises(lambda st, e: z3.Or(z3.And(trig, exp_), z3.Not(z3.Or(trig, exp_))))


@contract('program/assignment/functional_assignment.py', 'FunctionalAssignment.get_moment', ['C13', 'C03'])
def functional_get_moment(cx):
    """E[f(arg)^k * rest] split on the condition indicator: a numeric argument is evaluated immediately; a drawn argument is deferred to the
    draw's assignment (the variable stays symbolic as var**k) and BOTH the functional assignment and the trigger are registered in the context"""
    k = cx.int('k'); c = cx.real('c'); rest = cx.real('rest'); d = cx.real('default'); var = cx.real('variable'); isnum = cx.bool('argument_is_Number')
    CONST = z3.Function('const_moment', I, R)
    arg = cx.real('argument')
    ctx = cx.ref('ctx')
    me = cx.obj('FunctionalAssignment', argument=arg, variable=var, default=d)
    cx.param(self=me, k=k, rec_builder_context=ctx, arithm_cond=c, rest=rest)
    cx.attr('is_Number', lambda ex, st, o: isnum)
    cx.call('get_const_moment', lambda ex, st, r, a, kw: VR(CONST(toint(a[0]))), trusted='get_const_moment: f(argument)**k (bounded C13 check)')
    cx.st.vars['$registered'] = VB(False); cx.st.vars['$trigger'] = VB(False)

    def reg(ex, st, r, a, kw):
        st.vars['$registered'] = VB(True); return VNone()

    def trig(ex, st, r, a, kw):
        st.vars['$trigger'] = VB(z3.And(toreal(a[0]) == arg.t, toreal(a[1]) == var.t)); return VNone()
    cx.call('add_func_assignments', reg); cx.call('add_trigger', trig)
    cx.requires(k.t >= 0)
    m = z3.If(isnum.t, CONST(k.t), POW(var.t, k.t))
    cx.ensures(lambda st, r: z3.And(toreal(r) == c.t * m * rest.t + (1 - c.t) * POW(d.t, k.t) * rest.t,
                                    z3.Implies(z3.Not(isnum.t), z3.And(st['$registered'].t, st['$trigger'].t))))


@contract('utils/expressions.py', 'are_coprime', ['C16'])
def are_coprime_c(cx):
    """true iff all pairs of the integers are coprime"""
    GCD = z3.Function('gcd', I, I, I)
    ints = cx.seq('integers', DI)
    cx.param(integers=ints)
    cx.call('gcd', lambda ex, st, r, a, kw: VI(GCD(toint(a[0]), toint(a[1]))), trusted='math.gcd')
    cx.set_hook('comprehension', lambda ex, st, comp: ints)      # [int(n) for n in integers]: the same integers
    i_, j_ = z3.Int('i_'), z3.Int('j_')
    pair_ok = lambda hi: z3.ForAll([i_, j_], z3.Implies(z3.And(0 <= i_, i_ < hi, i_ < j_, j_ < z3.Length(ints.t)), GCD(ints.t[i_], ints.t[j_]) == 1))
    cx.invariant(0, lambda st: pair_ok(st['$i0'].t))
    cx.invariant(1, lambda st: z3.And(pair_ok(st['i'].t), z3.ForAll([j_], z3.Implies(z3.And(st['i'].t < j_, j_ < st['i'].t + 1 + st['$i1'].t), GCD(ints.t[st['i'].t], ints.t[j_]) == 1)),
                                      0 <= st['i'].t, st['i'].t < z3.Length(ints.t)))
    cx.ensures(lambda st, r: truthy(r) == pair_ok(z3.Length(ints.t)))


@contract('program/assignment/functional_assignment.py', 'FunctionalAssignment.get_trig_moment', ['C13'])
def get_trig_moment_c(cx):
    """E(X^p sin^s(X) cos^c(X)) by the characteristic function: every derivative of the closed-form cf is evaluated AWAY from 0; at 0 (the
    constant term of the product-to-sum expansion) the derivative is i^p E(X^p) taken from the moment (D24: the closed form may be a Piecewise
    that is constant at 0).  The value of the double sum itself is decided by the bounded C13 check against quadrature."""
    CF = z3.Function('cf', I, R); DCF = z3.Function('d_cf', I, I, R); MOM = z3.Function('moment', I, R); CONV = z3.Function('convert_func_moment', R, R)
    powers = cx.map('func_powers', DS, DI)
    dist = cx.ref('dist', 'Distribution')
    cx.param(cls=cx.ref('cls'), dist=dist, func_powers=powers)
    arr, dom = powers.t
    kq = z3.String('kq')
    cx.requires(z3.ForAll([kq], z3.Implies(z3.Select(dom, kq), z3.Select(arr, kq) >= 1)))
    cx.requires(z3.Or(z3.Select(dom, z3.StringVal('Sin')), z3.Select(dom, z3.StringVal('Cos'))))      # get_func_moment dispatches here only with a trigonometric power
    IU = z3.Real('imaginary_unit'); xq, nq = z3.Real('xq'), z3.Int('nq')
    cx.glob('I', VR(IU))             # the arithmetic on complex values is not modelled: i is an opaque non-zero constant
    cx.axiom(IU != 0, z3.ForAll([xq, nq], z3.Implies(xq != 0, POW(xq, nq) != 0)))
    def cf(ex, st, r, a, kw):
        if a[0].kind != 'int': return V('opaque')
        # D34: the closed form of a characteristic function may be 0/0 at t = 0 (DiscreteUniform): it is only evaluated away from 0
        ex.need(st, toint(a[0]) != 0, 'closed-form-cf-away-from-0@0', 'safety')
        return VR(CF(toint(a[0])))
    cx.call('cf', cf, trusted='Distribution.cf(t) for t != 0 (C08 bounded check against the defining integral)')
    cx.attr('is_number', lambda ex, st, o: VB(True)); cx.call('N', lambda ex, st, r, a, kw: a[0])
    cx.call('SSymbol', lambda ex, st, r, a, kw: V('ref', z3.Const('t', REF)))
    cx.call('diff', lambda ex, st, r, a, kw: V('opaque', None, order=a[2]))
    cx.call('get_moment', lambda ex, st, r, a, kw: VR(MOM(toint(a[0]))), trusted='Distribution.get_moment (C08 contracts)')
    cx.call('ssympify', lambda ex, st, r, a, kw: a[0])
    cx.call('comb', lambda ex, st, r, a, kw: VR(z3.Function('binomial', I, I, R)(toint(a[0]), toint(a[1]))))
    cx.call('re', lambda ex, st, r, a, kw: a[0]); cx.call('im', lambda ex, st, r, a, kw: VN(z3.RealVal(0)), trusted='the imaginary part of the sum vanishes (asserted at run time by the code itself)')
    cx.call('convert_func_moment', lambda ex, st, r, a, kw: VR(CONV(toreal(a[0]))), trusted='convert_func_moment (rounding contract, C13 bounded)')

    def xreplace(ex, st, r, a, kw):
        m = a[0]
        if m.kind != 'map': raise OutOfReach('xreplace argument')
        # the single value of the substitution {t: point}
        arr_, dom_ = m.t
        vals = [c for c in _store_values(arr_)]
        if len(vals) != 1: raise OutOfReach('xreplace with other than one substitution')
        ex.need(st, vals[0] != 0, 'derivative-of-closed-form-away-from-0@0', 'safety')
        return VR(DCF(toint(r.get('order')), vals[0]))
    cx.call('xreplace', xreplace, trusted='sympy diff(cf(t), t, p).xreplace({t: a}) = p-th derivative of cf at a, for a != 0')
    def assign_hook(ex, st, node, v):
        # the frequency-0 term of the product-to-sum expansion: the k-th derivative of the characteristic function at 0 is  i**k * E(X**k)  (1 for k = 0)
        if len(node.targets) == 1 and isinstance(node.targets[0], ast.Name) and node.targets[0].id == 'cf_term' and 'arg' in st.vars and 'id_power' in st.vars:
            arg_, idp = toint(st['arg']), toint(st['id_power'])
            ex.need(st, z3.Implies(arg_ == 0, z3.If(idp > 0, toreal(v) == POW(IU, idp) * MOM(idp), toreal(v) == 1)) if v.kind in ('real', 'num', 'int') else z3.BoolVal(True),
                    'frequency-0-term.is-i^k-times-the-moment@0', 'ensures')
    import ast
    cx.set_hook('assign_hook', assign_hook)
    cx.invariant(0, lambda st: z3.BoolVal(True)); cx.invariant(1, lambda st: z3.BoolVal(True))
    cx.ensures(lambda st, r: z3.BoolVal(True))
    cx.replay = dict(kind='trig_moment_at_zero')


def _store_values(arr):
    """values stored in a chain Store(Store(K(..), k1, v1), k2, v2)"""
    out = []
    while z3.is_store(arr):
        out.append(arr.arg(2)); arr = arr.arg(0)
    return out
