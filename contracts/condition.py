"""Sidecar contracts: program/condition/*.py and utils/conditions.py.

Ghost model. One arbitrary fixed program state sigma is implicit.  For a condition object c (a Ref):
  holds(c)    : Bool  -- c is true in sigma
  marked(c)   : Bool  -- c.is_loop_guard
  hasguard(c) : Bool  -- c or one of its sub-conditions carries the guard mark
  guardof(c)  : Ref   -- the first marked sub-condition in the order get_loop_guard searches
  G           : Bool  -- the source loop guard holds in sigma
Class invariant of the mark (established by LoopGuardTransformer, C09):  marked(c) => (G => holds(c)).
Abstract contracts (behavioural subtyping; every override is verified against the same contract):
  to_arithm(p)               = [holds(self)]            (requires the finite-type precondition of its atoms)
  evaluate(state)            = holds(self)
  is_implied_by_loop_guard() => (G => holds(self))
  get_loop_guard()           = None iff not hasguard(self); else a condition equivalent to guardof(self) and marked
"""
import z3
from pyvc.core import *
from pyvc.verify import contract, ind

holds = z3.Function('holds', REF, B)
marked = z3.Function('marked', REF, B)
hasguard = z3.Function('hasguard', REF, B)
guardof = z3.Function('guardof', REF, REF)
G = z3.Bool('G')

COPS = ['==', '<=', '>=', '<', '>']


def cop_sem(cop, l, r):
    """meaning of the five comparison operators of the loop language"""
    return z3.If(cop == z3.StringVal('=='), l == r,
           z3.If(cop == z3.StringVal('<='), l <= r,
           z3.If(cop == z3.StringVal('>='), l >= r,
           z3.If(cop == z3.StringVal('<'), l < r, l > r))))


def cop_known(cop): return z3.Or(*[cop == z3.StringVal(c) for c in COPS])


def binary_self(cx, cls):
    c1, c2 = cx.ref('cond1', 'Condition'), cx.ref('cond2', 'Condition')
    me = cx.ref('self_ref', cls)
    self = cx.obj(cls, cond1=c1, cond2=c2, is_loop_guard=VB(marked(me.t)))
    return self, me, c1, c2


def callee_arith(cx):
    # abstract contract of Condition.to_arithm on sub-conditions
    cx.call('to_arithm', lambda ex, st, recv, a, kw: VR(ind(holds(recv.t))),
            trusted='Condition.to_arithm(p) = [holds] (abstract contract; each override verified against it)')


# ---------------------------------------------------------------- to_arithm
@contract('program/condition/and_cond.py', 'And.to_arithm', ['C03', 'C09', 'C17'])
def and_to_arithm(cx):
    cx.replay = dict(kind='and_to_arithm')
    self, me, c1, c2 = binary_self(cx, 'And')
    cx.param(self=self, p=cx.ref('program'))
    callee_arith(cx)
    cx.ensures(lambda st, r: toreal(r) == ind(z3.And(holds(c1.t), holds(c2.t))))


@contract('program/condition/or_cond.py', 'Or.to_arithm', ['C03', 'C09', 'C17'])
def or_to_arithm(cx):
    cx.replay = dict(kind='or_to_arithm')
    self, me, c1, c2 = binary_self(cx, 'Or')
    cx.param(self=self, p=cx.ref('program'))
    callee_arith(cx)
    cx.ensures(lambda st, r: toreal(r) == ind(z3.Or(holds(c1.t), holds(c2.t))))


@contract('program/condition/not_cond.py', 'Not.to_arithm', ['C03', 'C09', 'C17'])
def not_to_arithm(cx):
    cx.replay = dict(kind='not_to_arithm')
    c = cx.ref('cond', 'Condition')
    self = cx.obj('Not', cond=c)
    cx.param(self=self, p=cx.ref('program'))
    callee_arith(cx)
    cx.ensures(lambda st, r: toreal(r) == ind(z3.Not(holds(c.t))))


@contract('program/condition/true_cond.py', 'TrueCond.to_arithm', ['C03'])
def true_to_arithm(cx):
    cx.param(self=cx.obj('TrueCond'), p=cx.ref('program'))
    cx.ensures(lambda st, r: toreal(r) == 1)


@contract('program/condition/false_cond.py', 'FalseCond.to_arithm', ['C03'])
def false_to_arithm(cx):
    cx.param(self=cx.obj('FalseCond'), _=cx.ref('program'))
    cx.ensures(lambda st, r: toreal(r) == 0)


@contract('program/condition/atom_cond.py', 'Atom.is_normalized', ['C03', 'C18'])
def atom_is_normalized(cx):
    # normal form: <symbol> == <number>   (the number need not be an integer: values of finite types are arbitrary numbers, repaired in a33d8de)
    sym, number = cx.bool('poly1_is_Symbol'), cx.bool('poly2_is_Number')
    cop = cx.str('cop')
    p1, p2 = cx.real('poly1'), cx.real('poly2')
    self = cx.obj('Atom', poly1=p1, poly2=p2, cop=cop)
    cx.param(self=self)
    cx.attr('is_Symbol', lambda ex, st, o: sym)
    cx.attr('is_Number', lambda ex, st, o: number)
    cx.ensures(lambda st, r: truthy(r) == z3.And(sym.t, number.t, cop.t == z3.StringVal('==')))


@contract('program/condition/atom_cond.py', 'Atom.is_reduced', ['C02', 'C18'])
def atom_is_reduced(cx):
    sym, integer = cx.bool('poly1_is_Symbol'), cx.bool('poly2_is_Integer')
    self = cx.obj('Atom', poly1=cx.real('poly1'), poly2=cx.real('poly2'), cop=cx.str('cop'))
    cx.param(self=self)
    cx.attr('is_Symbol', lambda ex, st, o: sym)
    cx.attr('is_Integer', lambda ex, st, o: integer)
    cx.ensures(lambda st, r: truthy(r) == z3.And(sym.t, integer.t))


@contract('program/condition/atom_cond.py', 'Atom.to_arithm', ['C03', 'C05', 'C09'])
def atom_to_arithm(cx):
    """Lagrange indicator: for every value x of the variable inside its finite type, result = [x cop value]."""
    vals = cx.set('values', DN)
    x = cx.real('x')                      # sigma(var)
    value = cx.num('value')
    cop = cx.str('cop')
    norm, isfin = cx.bool('is_normalized'), cx.bool('type_is_Finite')
    w = cx.int('w')
    self = cx.obj('Atom', poly1=x, poly2=value, cop=cop)
    vt = cx.obj('Finite', values=vals)
    cx.param(self=self, program=cx.ref('program'))
    cx.call('is_normalized', lambda ex, st, recv, a, kw: norm)
    cx.call('get_type', lambda ex, st, recv, a, kw: vt)
    cx.isinstance(lambda ex, st, o, cls: isfin.t if cls == 'Finite' else (_ for _ in ()).throw(OutOfReach('isinstance ' + cls)))
    # contract of is_normalized (verified above): true => cop is '=='
    cx.requires(z3.Implies(norm.t, cop.t == z3.StringVal('==')))
    # typing precondition (C05): the variable's value is an element of its finite type; index witness w
    cx.requires(z3.Implies(isfin.t, z3.And(0 <= w.t, w.t < z3.Length(vals.t), vals.t[w.t] == x.t)))
    jj = z3.Int('jj')

    def hit(i):  # some value before position i equals x and differs from `value`
        return z3.Exists([jj], z3.And(0 <= jj, jj < i, vals.t[jj] == x.t, vals.t[jj] != value.t))
    cx.invariant(0, lambda st: z3.And(z3.Implies(x.t == value.t, toreal(st['result']) == 1),
                                      z3.Implies(hit(st['$i0'].t), toreal(st['result']) == 0)))
    cx.ensures(lambda st, r: toreal(r) == ind(cop_sem(cop.t, x.t, value.t)))
    cx.raises(lambda st, e: z3.Or(z3.Not(norm.t), z3.Not(isfin.t)))
    cx.replay = dict(kind='atom_to_arithm')


# ---------------------------------------------------------------- evaluate / evaluate_cop / get_valid_values
@contract('utils/conditions.py', 'evaluate_cop', ['C12', 'C02'])
def evaluate_cop_c(cx):
    l, r = cx.num('left'), cx.num('right'); cop = cx.str('cop')
    cx.param(left=l, cop=cop, right=r)
    cx.ensures(lambda st, res: z3.And(cop_known(cop.t), truthy(res) == cop_sem(cop.t, l.t, r.t)))
    cx.raises(lambda st, e: z3.Not(cop_known(cop.t)))        # '/=' and anything else is refused, never misread
    cx.replay = dict(kind='evaluate_cop')


@contract('utils/conditions.py', 'get_valid_values', ['C02', 'C05', 'C18'])
def get_valid_values_c(cx):
    vals = cx.set('possible_values', DN); cop = cx.str('cop'); c = cx.num('integer')
    cx.param(possible_values=vals, cop=cop, integer=c)
    y = z3.Real('y')
    cx.ensures(lambda st, res: z3.And(cop_known(cop.t), z3.ForAll([y], member(res.t, y) ==
                                      z3.And(member(vals.t, y), cop_sem(cop.t, y, c.t)))))
    cx.raises(lambda st, e: z3.Not(cop_known(cop.t)))
    cx.replay = dict(kind='get_valid_values')


def callee_eval(cx):
    cx.call('evaluate', lambda ex, st, recv, a, kw: VB(holds(recv.t)),
            trusted='Condition.evaluate(state) = holds (abstract contract; each override verified against it)')


@contract('program/condition/and_cond.py', 'And.evaluate', ['C12'])
def and_evaluate(cx):
    cx.replay = dict(kind='and_evaluate')
    self, me, c1, c2 = binary_self(cx, 'And')
    cx.param(self=self, state=cx.ref('state')); callee_eval(cx)
    cx.ensures(lambda st, r: truthy(r) == z3.And(holds(c1.t), holds(c2.t)))


@contract('program/condition/or_cond.py', 'Or.evaluate', ['C12'])
def or_evaluate(cx):
    cx.replay = dict(kind='or_evaluate')
    self, me, c1, c2 = binary_self(cx, 'Or')
    cx.param(self=self, state=cx.ref('state')); callee_eval(cx)
    cx.ensures(lambda st, r: truthy(r) == z3.Or(holds(c1.t), holds(c2.t)))


@contract('program/condition/not_cond.py', 'Not.evaluate', ['C12'])
def not_evaluate(cx):
    c = cx.ref('cond', 'Condition')
    cx.param(self=cx.obj('Not', cond=c), state=cx.ref('state')); callee_eval(cx)
    cx.ensures(lambda st, r: truthy(r) == z3.Not(holds(c.t)))


@contract('program/condition/true_cond.py', 'TrueCond.evaluate', ['C12'])
def true_evaluate(cx):
    cx.param(self=cx.obj('TrueCond'), state=cx.ref('state'))
    cx.ensures(lambda st, r: truthy(r) == z3.BoolVal(True))


@contract('program/condition/false_cond.py', 'FalseCond.evaluate', ['C12'])
def false_evaluate(cx):
    cx.param(self=cx.obj('FalseCond'), state=cx.ref('state'))
    cx.ensures(lambda st, r: truthy(r) == z3.BoolVal(False))


@contract('program/condition/atom_cond.py', 'Atom.evaluate', ['C12'])
def atom_evaluate(cx):
    """value of poly1/poly2 in the state = l, r; result = l cop r; non-numeric => EvaluationException."""
    l, r = cx.num('poly1_at_state'), cx.num('poly2_at_state'); cop = cx.str('cop')
    n1, n2 = cx.bool('poly1_is_Number'), cx.bool('poly2_is_Number')
    p1, p2 = cx.ref('poly1'), cx.ref('poly2')
    self = cx.obj('Atom', poly1=p1, poly2=p2, cop=cop)
    cx.param(self=self, state=cx.ref('state'))
    cx.call('subs', lambda ex, st, recv, a, kw: V('num', z3.If(recv.t == p1.t, l.t, r.t), src=recv),
            trusted='Expr.subs(state) = value of the expression in the state')
    cx.attr('is_Number', lambda ex, st, o: VB(z3.If(o.x['src'].t == p1.t, n1.t, n2.t)))
    cx.requires(p1.t != p2.t)
    cx.call('evaluate_cop', lambda ex, st, recv, a, kw: VB(cop_sem(toreal_s(a[1]), toreal(a[0]), toreal(a[2]))),
            trusted='evaluate_cop contract (verified in utils/conditions.py); cop known (Atom built by the parser)')
    cx.requires(cop_known(cop.t))
    cx.ensures(lambda st, res: z3.And(n1.t, n2.t, truthy(res) == cop_sem(cop.t, l.t, r.t)))
    cx.raises(lambda st, e: z3.Not(z3.And(n1.t, n2.t)))


def toreal_s(v): return v.t


# ---------------------------------------------------------------- guard marks
def callee_implied(cx):
    # abstract contract: result => (G => holds)
    def h(ex, st, recv, a, kw):
        b = ex.fresh(B, 'implied')
        ex.axioms.append(z3.Implies(b, z3.Implies(G, holds(recv.t))))
        return VB(b)
    cx.call('is_implied_by_loop_guard', h, trusted='abstract contract of is_implied_by_loop_guard')


@contract('program/condition/and_cond.py', 'And.is_implied_by_loop_guard', ['C05'])
def and_implied(cx):
    cx.replay = dict(kind='and_implied')
    self, me, c1, c2 = binary_self(cx, 'And')
    cx.param(self=self); callee_implied(cx)
    cx.axiom(holds(me.t) == z3.And(holds(c1.t), holds(c2.t)), z3.Implies(marked(me.t), z3.Implies(G, holds(me.t))))
    cx.ensures(lambda st, r: z3.Implies(truthy(r), z3.Implies(G, holds(me.t))))


@contract('program/condition/or_cond.py', 'Or.is_implied_by_loop_guard', ['C05'])
def or_implied(cx):
    self, me, c1, c2 = binary_self(cx, 'Or')
    cx.param(self=self); callee_implied(cx)
    cx.axiom(holds(me.t) == z3.Or(holds(c1.t), holds(c2.t)), z3.Implies(marked(me.t), z3.Implies(G, holds(me.t))))
    cx.ensures(lambda st, r: z3.Implies(truthy(r), z3.Implies(G, holds(me.t))))


def unary_implied(file, cls, holds_axiom=None):
    @contract(file, f'{cls}.is_implied_by_loop_guard', ['C05'])
    def c(cx):
        me = cx.ref('self_ref', cls)
        self = cx.obj(cls, is_loop_guard=VB(marked(me.t)), cond=cx.ref('cond'))
        cx.param(self=self)
        cx.axiom(z3.Implies(marked(me.t), z3.Implies(G, holds(me.t))))
        if holds_axiom is not None: cx.axiom(holds_axiom(me.t))
        cx.ensures(lambda st, r: z3.Implies(truthy(r), z3.Implies(G, holds(me.t))))
    return c


unary_implied('program/condition/atom_cond.py', 'Atom')
unary_implied('program/condition/not_cond.py', 'Not')
unary_implied('program/condition/true_cond.py', 'TrueCond', lambda me: holds(me))
unary_implied('program/condition/false_cond.py', 'FalseCond', lambda me: z3.Not(holds(me)))


def callee_copy_and_guard(cx, me):
    def copy(ex, st, recv, a, kw):
        r = ex.fresh(REF, 'copy')
        ex.axioms += [holds(r) == holds(me.t), marked(r) == marked(me.t)]
        return V('ref', r, cls='Condition')
    cx.call('copy', copy, trusted='Condition.copy(): equivalent condition with the same guard mark')

    def glg(ex, st, recv, a, kw):
        r = ex.fresh(REF, 'subguard')
        ex.axioms += [z3.Implies(hasguard(recv.t), z3.And(holds(r) == holds(guardof(recv.t)), marked(r)))]
        return V('ref', r, cls='Condition', nullable=z3.Not(hasguard(recv.t)))
    cx.call('get_loop_guard', glg, trusted='abstract contract of get_loop_guard on sub-conditions')


def guard_post(me):
    def post(st, r):
        isnone = (r.kind == 'none')
        if isnone: return z3.Not(hasguard(me.t))
        nul = r.get('nullable') if r.get('nullable') is not None else z3.BoolVal(False)
        return z3.And(nul == z3.Not(hasguard(me.t)),
                      z3.Implies(z3.Not(nul), z3.And(holds(r.t) == holds(guardof(me.t)), marked(r.t))))
    return post


def binary_guard(file, cls):
    @contract(file, f'{cls}.get_loop_guard', ['C09'])
    def c(cx):
        self, me, c1, c2 = binary_self(cx, cls)
        cx.param(self=self); callee_copy_and_guard(cx, me)
        cx.axiom(hasguard(me.t) == z3.Or(marked(me.t), hasguard(c1.t), hasguard(c2.t)),
                 guardof(me.t) == z3.If(marked(me.t), me.t, z3.If(hasguard(c1.t), guardof(c1.t), guardof(c2.t))))
        cx.ensures(guard_post(me))
    return c


binary_guard('program/condition/and_cond.py', 'And')
binary_guard('program/condition/or_cond.py', 'Or')


def leaf_guard(file, cls):
    @contract(file, f'{cls}.get_loop_guard', ['C09'])
    def c(cx):
        me = cx.ref('self_ref', cls)
        self = cx.obj(cls, is_loop_guard=VB(marked(me.t)))
        cx.param(self=self); callee_copy_and_guard(cx, me)
        cx.axiom(hasguard(me.t) == marked(me.t), guardof(me.t) == me.t)
        cx.ensures(guard_post(me))
    return c


leaf_guard('program/condition/atom_cond.py', 'Atom')
leaf_guard('program/condition/true_cond.py', 'TrueCond')
leaf_guard('program/condition/false_cond.py', 'FalseCond')


@contract('program/condition/not_cond.py', 'Not.get_loop_guard', ['C09'])
def not_guard(cx):
    me = cx.ref('self_ref', 'Not'); c = cx.ref('cond', 'Condition')
    self = cx.obj('Not', is_loop_guard=VB(marked(me.t)), cond=c)
    cx.param(self=self); callee_copy_and_guard(cx, me)
    cx.axiom(hasguard(me.t) == z3.Or(marked(me.t), hasguard(c.t)),
             guardof(me.t) == z3.If(marked(me.t), me.t, guardof(c.t)))
    cx.ensures(guard_post(me))


_OCC_NAMES = []


# ---------------------------------------------------------------- Atom.get_normalized (C02 / C09 / C18)
@contract('program/condition/atom_cond.py', 'Atom.get_normalized', ['C02', 'C09', 'C18', 'C05'])
def atom_get_normalized(cx):
    """For a reduced atom `var cop value` over a finitely typed variable: the result holds exactly when `sigma(var) cop value`
    (for every value of the variable inside its type), carries the guard mark of the atom, and reports no failed atoms;
    for a non-finite variable the atom itself is returned as failed; a non-reduced atom is refused."""
    vals = cx.set('values', DN); x = cx.real('x'); value = cx.num('value'); cop = cx.str('cop')
    reduced, isfin, mark = cx.bool('is_reduced'), cx.bool('type_is_Finite'), cx.bool('is_loop_guard')
    w = cx.int('w')
    self = cx.obj('Atom', poly1=x, poly2=value, cop=cop, is_loop_guard=mark, **{'$holds': VB(cop_sem(cop.t, x.t, value.t))})
    vt = cx.obj('Finite', values=vals)
    cx.param(self=self, program=cx.ref('program'))
    cx.call('is_reduced', lambda ex, st, r, a, kw: reduced)
    cx.call('get_type', lambda ex, st, r, a, kw: vt)
    cx.isinstance(lambda ex, st, o, cls: isfin.t)
    cx.requires(cop_known(cop.t))
    cx.requires(z3.Implies(isfin.t, z3.And(0 <= w.t, w.t < z3.Length(vals.t), vals.t[w.t] == x.t)))     # typing precondition (C05)
    valid = cx.set('valid_values', DN); y = z3.Real('yv')
    cx.call('get_valid_values', lambda ex, st, r, a, kw: valid,
            trusted='get_valid_values contract (verified in utils/conditions.py): exactly the type values satisfying the comparison')
    cx.axiom(z3.ForAll([y], member(valid.t, y) == z3.And(member(vals.t, y), cop_sem(cop.t, y, value.t))))

    def mk_atom(ex, st, r, a, kw):
        return new_obj(st, 'Atom', poly1=a[0], cop=a[1], poly2=a[2], is_loop_guard=VB(False),
                       **{'$holds': VB(z3.And(a[1].t == z3.StringVal('=='), toreal(a[0]) == toreal(a[2])))})
    cx.call('Atom', mk_atom)
    cx.call('Or', lambda ex, st, r, a, kw: new_obj(st, 'Or', cond1=a[0], cond2=a[1], is_loop_guard=VB(False),
                                                   **{'$holds': VB(z3.Or(st.field(a[0], '$holds').t, st.field(a[1], '$holds').t))}))
    cx.call('FalseCond', lambda ex, st, r, a, kw: new_obj(st, 'FalseCond', is_loop_guard=VB(False), **{'$holds': VB(False)}))
    cx.set_hook('obj_havoc_fields', ['is_loop_guard', '$holds'])
    # loop over the remaining valid values: result holds iff x is the popped value or one of the values seen so far
    rest_c = [None]; occ_names = _OCC_NAMES

    def occ_of(it):
        # occ(i): x occurs among the first i elements of the iterated (remaining) set -- spec recursion
        if rest_c[0] is None or not rest_c[0][0].eq(it):
            f = z3.RecFunction(f'occ{len(occ_names)}', I, B); j = z3.Int('jo'); occ_names.append(1)
            z3.RecAddDefinition(f, [j], z3.If(j <= 0, z3.BoolVal(False), z3.Or(f(j - 1), it[j - 1] == x.t)))
            rest_c[0] = (it, f)
        return rest_c[0][1]

    def inv(st):
        it = st['valid_values']          # the set being iterated (after pop)
        occ = occ_of(it.t)
        return dict(prove=st.field(st['result'], '$holds').t == z3.Or(z3.And(member(valid.t, x.t), z3.Not(member(it.t, x.t))), occ(st['$i0'].t)),
                    # lemma L-occ (induction over the length, assumed): occurrence among all elements is membership
                    assume=occ(z3.Length(it.t)) == member(it.t, x.t))
    cx.invariant(0, inv)
    cx.lemmas.append(('L-occ: occ(len(s)) <=> x in s (induction over the sequence), used where the loop invariant is assumed', None))

    def post(st, r):
        res, failed = r.t
        if failed.kind == 'pylist':      # not finite: the atom itself is returned as failed
            return z3.And(z3.Not(isfin.t), z3.BoolVal(res.t == self.t), z3.BoolVal(len(failed.t) == 1 and failed.t[0].t == self.t))
        return z3.And(isfin.t, st.field(res, 'is_loop_guard').t == mark.t,
                      st.field(res, '$holds').t == cop_sem(cop.t, x.t, value.t), z3.BoolVal(bool(failed.get('empty'))))
    cx.ensures(post)
    cx.raises(lambda st, e: z3.Not(reduced.t))


# ---------------------------------------------------------------- simplify / add_to_condition (C02)
def simplify_contract(file, cls, neutral_cls, sem):
    @contract(file, f'{cls}.simplify', ['C02'])
    def c(cx):
        """simplification keeps the meaning: removing the neutral element (true for and, false for or) of a conjunction / disjunction"""
        me = cx.ref('self_ref', cls); c1, c2 = cx.ref('cond1'), cx.ref('cond2')
        SIMP = z3.Function('simplified', REF, REF); ISN = z3.Function('is_' + neutral_cls, REF, B)
        self = cx.obj(cls, cond1=c1, cond2=c2)
        cx.param(self=self)
        cx.call('simplify', lambda ex, st, r, a, kw: V('ref', SIMP(r.t)), trusted='Condition.simplify on sub-conditions: equivalent condition')
        cx.isinstance(lambda ex, st, o, k: ISN(o.t))
        y = z3.Const('y', REF)
        cx.axiom(z3.ForAll([y], holds(SIMP(y)) == holds(y)))
        cx.axiom(z3.ForAll([y], z3.Implies(ISN(y), holds(y) == (neutral_cls == 'TrueCond'))))

        def post(st, r):
            h = holds(r.t) if r.kind == 'ref' else sem(holds(st.field(self, 'cond1').t), holds(st.field(self, 'cond2').t))
            return h == sem(holds(c1.t), holds(c2.t))
        cx.ensures(post)
    return c


simplify_contract('program/condition/and_cond.py', 'And', 'TrueCond', lambda a, b: z3.And(a, b))
simplify_contract('program/condition/or_cond.py', 'Or', 'FalseCond', lambda a, b: z3.Or(a, b))


@contract('program/assignment/assignment.py', 'Assignment.add_to_condition', ['C02'])
def add_to_condition(cx):
    """the assignment now happens only if its old condition AND the added condition hold"""
    old, new = cx.ref('old_condition'), cx.ref('cond')
    self = cx.obj('Assignment', condition=old)
    cx.param(self=self, cond=new)

    def mk_and(ex, st, r, a, kw):
        t = ex.fresh(REF, 'and'); ex.axioms.append(holds(t) == z3.And(holds(a[0].t), holds(a[1].t))); return V('ref', t)
    cx.call('And', mk_and)
    cx.ensures(lambda st, r: holds(st.field(self, 'condition').t) == z3.And(holds(old.t), holds(new.t)))


@contract('program/condition/atom_cond.py', 'Atom.reduce', ['C02'])
def atom_reduce(cx):
    """a non-reduced atom  p1 cop p2  becomes  r cop 0  where r is a fresh variable aliased to p1 - p2 (returned as (r, p1 - p2) for the caller
    to assign before the atom is used), or the alias already stored for an EQUAL atom; the meaning of the atom is unchanged."""
    p1, p2 = cx.real('poly1'), cx.real('poly2'); cop = cx.str('cop')
    red, hit = cx.bool('is_reduced'), cx.bool('atom_in_store')
    stored = cx.real('stored_alias_value'); fresh_v = cx.real('new_var_value')
    me = cx.obj('Atom', poly1=p1, poly2=p2, cop=cop)
    cx.param(self=me, store=V('storemap', None))
    cx.call('is_reduced', lambda ex, st, r, a, kw: red)
    cx.requires(cop_known(cop.t))
    # store invariant (established by this function's own writes, below): the alias stored for an atom equal to self has the value p1 - p2
    cx.requires(z3.Implies(hit.t, stored.t == p1.t - p2.t))
    cx.call('get_unique_var', lambda ex, st, r, a, kw: fresh_v)
    cx.call('Zero', lambda ex, st, r, a, kw: VN(0))
    cx.st.vars['$stored_new'] = V('none')

    class StoreHooks:
        pass
    orig_contains = None

    def binop(ex, st, op, a, b): return None
    # membership / lookup / store on the alias store
    def contains_hook(ex, st, o, i):
        if o.kind == 'storemap': return VR(stored.t)
        return None
    cx.set_hook('index_hook', contains_hook)
    cx.set_hook('in_hook', lambda ex, st, a, b: hit.t if b.kind == 'storemap' else None)

    def store_hook(ex, st, target_obj, key, v):
        st.vars['$stored_new'] = v
        return True
    cx.set_hook('subscript_store_hook', store_hook)
    cx.call('copy', lambda ex, st, r, a, kw: r)

    def post(st, r):
        n1, n2 = toreal(st.field(me, 'poly1')), toreal(st.field(me, 'poly2'))
        same_meaning = cop_sem(cop.t, n1, n2) == cop_sem(cop.t, p1.t, p2.t)
        if r.get('empty'):       # no alias assignment returned: either already reduced (unchanged) or a store hit
            return z3.And(z3.Or(red.t, hit.t), z3.Implies(red.t, z3.And(n1 == p1.t, n2 == p2.t)), same_meaning)
        pair = r.x['ek'].wrap(r.t[0])
        new_var, alias = pair.t
        # meaning of the returned pair: the caller assigns new_var = alias, so the value of new_var IS alias
        return z3.And(z3.Not(red.t), z3.Not(hit.t), z3.Length(r.t) == 1, toreal(alias) == p1.t - p2.t, n1 == toreal(new_var), n2 == 0,
                      z3.Implies(toreal(new_var) == toreal(alias), same_meaning),
                      z3.BoolVal(st['$stored_new'].kind != 'none') if st['$stored_new'].kind == 'none' else toreal(st['$stored_new']) == toreal(new_var))
    cx.ensures(post)
