"""Sidecar contracts: recurrences/diff_rec_builder.py (C10): the recurrence of a differentiated monomial."""
import z3
from pyvc.core import *
from pyvc.verify import contract

F = 'recurrences/diff_rec_builder.py'


@contract(F, 'DiffRecBuilder.get_recurrence', ['C10'])
def diff_get_recurrence(cx):
    """the recurrence of delta*M is the derivative of the recurrence of M summand by summand: a summand c*m (c free of program variables, m the
    rest) contributes  dc/dp * m + c * d(m)  with d(m) = m*delta if E(m) depends on the parameter and 0 otherwise, dc/dp = 0 if p does not occur
    in c (product rule; a non-differentiated monomial is passed to the ordinary builder).  Trusted facts about sympy expressions, assumed where
    used: the factors of a product multiply to it, and a product c*m is parameter-dependent iff p occurs in c or m is dependent."""
    mono = cx.real('monomial'); delta = cx.real('delta'); param = cx.ref('param')
    HASDELTA = z3.Function('delta_occurs_in', R, B); PIN = z3.Function('param_occurs_in', R, B); DEPF = z3.Function('is_parameter_dependent', R, B)
    HASVAR = z3.Function('has_program_variables', R, B); DIFF = z3.Function('d_dparam', R, R)
    ISADD = z3.Function('is_Add', R, B); ISMUL = z3.Function('is_Mul', R, B); ARGS = z3.Function('args', R, z3.SeqSort(R))
    REC = z3.Function('ordinary_recurrence', R, R); WITHOUT = z3.Function('with_delta_set_to_one', R, R)
    me = cx.obj('DiffRecBuilder', delta=delta, param=param, rec_builder=cx.ref('rec_builder'), program=cx.obj('Program', symbols=V('opaque')))
    cx.param(self=me, monomial=mono)
    cx.attr('free_symbols', lambda ex, st, o: V('fs', toreal(o)))
    cx.set_hook('in_hook', lambda ex, st, a, b: (HASDELTA(b.t) if (a.kind == 'real' and a.t.eq(delta.t)) else (PIN(b.t) if a.kind == 'ref' and a.t.eq(param.t) else None)) if b.kind == 'fs' else None)
    cx.call('difference', lambda ex, st, r, a, kw: VB(HASVAR(r.t)) if r.kind == 'fs' else NotImplemented, trusted='factor.free_symbols - program.symbols is non-empty iff the factor mentions a program variable')
    cx.call('get_recurrence', lambda ex, st, r, a, kw: VR(REC(toreal(a[0]))), trusted='RecBuilder.get_recurrence contract (contracts/rec_builder.py)')
    cx.call('subs', lambda ex, st, r, a, kw: VR(WITHOUT(toreal(r))), trusted='monomial.subs(delta, 1): the monomial without the marker')
    cx.call('Zero', lambda ex, st, r, a, kw: VN(z3.RealVal(0))); cx.call('One', lambda ex, st, r, a, kw: VN(z3.RealVal(1)))
    cx.attr('is_Add', lambda ex, st, o: VB(ISADD(toreal(o)))); cx.attr('is_Mul', lambda ex, st, o: VB(ISMUL(toreal(o))))
    cx.attr('args', lambda ex, st, o: V('seq', ARGS(toreal(o)), ek=DR))
    cx.call('_is_monomial_p_dependent', lambda ex, st, r, a, kw: VB(DEPF(toreal(a[0]))), trusted='_is_monomial_p_dependent: p or a dependent variable (closure contract of get_dependent_variables) occurs')
    cx.call('diff', lambda ex, st, r, a, kw: VR(DIFF(toreal(r))), trusted='Expr.diff(param)')
    MUL = z3.Function('times', R, R, R)           # products of expressions are kept symbolic: the argument needs no arithmetic on them
    cx.set_hook('binop', lambda ex, st, op, a, b: VR(MUL(toreal(a), toreal(b))) if op == 'Mult' else None)
    orig = REC(WITHOUT(mono.t))
    S = z3.If(ISADD(orig), ARGS(orig), z3.Unit(orig))                    # the summands
    Fs = lambda s: z3.If(ISMUL(s), ARGS(s), z3.Unit(s))                    # the factors of a summand
    sq = z3.Const('sq', z3.SeqSort(R)); g = z3.Int('g'); i = z3.Int('i')
    CPF = z3.RecFunction('constant_part_of', z3.SeqSort(R), I, R); MPF = z3.RecFunction('monomial_part_of', z3.SeqSort(R), I, R)
    z3.RecAddDefinition(CPF, [sq, g], z3.If(g <= 0, z3.RealVal(1), z3.If(HASVAR(sq[g - 1]), CPF(sq, g - 1), MUL(CPF(sq, g - 1), sq[g - 1]))))
    z3.RecAddDefinition(MPF, [sq, g], z3.If(g <= 0, z3.RealVal(1), z3.If(HASVAR(sq[g - 1]), MUL(MPF(sq, g - 1), sq[g - 1]), MPF(sq, g - 1))))
    cp = lambda s: CPF(Fs(s), z3.Length(Fs(s))); mp = lambda s: MPF(Fs(s), z3.Length(Fs(s)))
    # product rule:  d(c*m) = dc/dp * m  +  c * d(m),   dc/dp = 0 unless p occurs in c,   d(m) = m*delta if m is dependent, else 0
    spec = lambda s: z3.If(PIN(cp(s)), MUL(DIFF(cp(s)), mp(s)), 0) + z3.If(DEPF(mp(s)), MUL(MUL(cp(s), mp(s)), delta.t), 0)
    DS = z3.RecFunction('derivative_of_first_summands', I, R)
    z3.RecAddDefinition(DS, [i], z3.If(i <= 0, z3.RealVal(0), DS(i - 1) + spec(S[i - 1])))

    def lemmas(s):          # assumed facts about the sympy product s with factors Fs(s)
        return z3.And(s == MUL(cp(s), mp(s)), DEPF(s) == z3.Or(PIN(cp(s)), DEPF(mp(s))))
    cx.lemmas.append(('L-prod/L-dep: a product equals constant part times monomial part of its factors; it is parameter-dependent iff p occurs in the constant part or the monomial part is dependent', None))
    cx.invariant(0, lambda st: dict(prove=toreal(st['rec']) == DS(st['$i0'].t), assume=z3.Implies(z3.And(0 <= st['$i0'].t, st['$i0'].t < z3.Length(S)), lemmas(S[st['$i0'].t]))))

    def inv_inner(st):
        s = S[st['$i0'].t]; gg = st['$i1'].t
        return z3.And(toreal(st['constant_part']) == CPF(Fs(s), gg), toreal(st['monomial_part']) == MPF(Fs(s), gg), toreal(st['rec']) == DS(st['$i0'].t))
    cx.invariant(1, lambda st: dict(prove=inv_inner(st), assume=lemmas(S[st['$i0'].t])))
    cx.ensures(lambda st, r: z3.If(HASDELTA(mono.t), toreal(r) == DS(z3.Length(S)), toreal(r) == REC(mono.t)))


@contract(F, 'DiffRecBuilder.get_recurrences', ['C10'])
def diff_get_recurrences(cx):
    """the system for the derivative of E(M) starts from delta*M and is CLOSED (same worklist as RecBuilder.get_recurrences): every monomial of
    every right-hand side -- differentiated or not -- has its own equation."""
    from contracts.rec_builder import worklist_closure
    TD = z3.Function('times_delta', REF, REF)
    goal = cx.ref('monomial'); delta = cx.ref('delta')
    cx.param(self=cx.obj('DiffRecBuilder', delta=delta, program=cx.obj('Program', symbols=V('opaque'))), monomial=goal)
    cx.set_hook('binop', lambda ex, st, op, a, b: V('ref', TD(a.t)) if (op == 'Mult' and a.kind == 'ref' and b.kind == 'ref' and b.t.eq(delta.t)) else None)
    worklist_closure(cx, TD(goal.t))


@contract(F, 'DiffRecBuilder.get_initial_value', ['C10'])
def diff_get_initial_value(cx):
    """the initial value of delta*M is the parameter derivative of the initial value of M; a monomial without the marker keeps its ordinary value"""
    mono = cx.real('monomial'); delta = cx.real('delta'); param = cx.ref('param')
    HASDELTA = z3.Function('delta_occurs_in', R, B); DIFF = z3.Function('d_dparam', R, R)
    INIT = z3.Function('ordinary_initial_value', R, R); WITHOUT = z3.Function('with_delta_set_to_one', R, R)
    cx.param(self=cx.obj('DiffRecBuilder', delta=delta, param=param, rec_builder=cx.ref('rec_builder')), monomial=mono)
    cx.attr('free_symbols', lambda ex, st, o: V('fs', toreal(o)))
    cx.set_hook('in_hook', lambda ex, st, a, b: HASDELTA(b.t) if (b.kind == 'fs' and a.kind == 'real' and a.t.eq(delta.t)) else None)
    cx.call('get_initial_value', lambda ex, st, r, a, kw: VR(INIT(toreal(a[0]))), trusted='RecBuilder.get_initial_value contract')
    cx.call('subs', lambda ex, st, r, a, kw: VR(WITHOUT(toreal(r))))
    cx.call('diff', lambda ex, st, r, a, kw: VR(DIFF(toreal(r))) if a and a[0].kind == 'ref' and a[0].t.eq(param.t) else V('opaque'))
    cx.ensures(lambda st, r: toreal(r) == z3.If(HASDELTA(mono.t), DIFF(INIT(WITHOUT(mono.t))), INIT(mono.t)))
