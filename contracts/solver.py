"""Sidecar contracts: recurrences/solver/acyclic_solver.py (C04, C01)."""
import z3
from pyvc.core import *
from pyvc.verify import contract, ind

F = 'recurrences/solver/acyclic_solver.py'
VF = z3.Function('valid_from', REF, I)              # spec value of _get_valid_from on a monomial (recursive calls use the contract)
MAT = z3.Function('recurrence_matrix', I, I, R)
IDX = z3.Function('monom_to_index', REF, I)


@contract(F, 'AcyclicSolver._get_valid_from', ['C04', 'C01'])
def get_valid_from(cx):
    """The first n from which the summed solution of a monomial is valid: at least the validity of EVERY dependency (one more if the
    monomial does not depend on itself), attained by some dependency, and at least 1."""
    monos = cx.seq('monomials', DRef('Expr')); mono = cx.ref('monomial')
    rec = cx.obj('Recurrences', monomials=monos, recurrence_matrix=V('fn2', MAT, wrap=lambda t: VN(t)))
    m2i = V('map', (z3.Lambda([z3.Const('v', REF)], IDX(z3.Const('v', REF))), z3.K(REF, z3.BoolVal(True))), kk=DRef(), vk=DI)
    cx.param(self=cx.obj('AcyclicSolver', recurrences=rec, monom_to_index=m2i), monomial=mono)
    cx.call('_get_valid_from', lambda ex, st, r, a, kw: VI(VF(a[0].t)), trusted='recursive call: same contract on the dependency (acyclic system)')
    idx = IDX(mono.t); n = z3.Length(monos.t); j = z3.Int('j')
    cx.requires(0 <= idx, idx < n, z3.ForAll([j], VF(monos.t[j]) >= 1))
    dep = lambda k: z3.And(k != idx, MAT(idx, k) != 0)

    def inv(st):
        i = st['$i0'].t; vf = st['valid_from'].t
        return z3.And(vf >= 0,
                      z3.ForAll([j], z3.Implies(z3.And(0 <= j, j < i, dep(j)), VF(monos.t[j]) <= vf)),
                      z3.Or(vf == 0, z3.Exists([j], z3.And(0 <= j, j < i, dep(j), VF(monos.t[j]) == vf))),
                      truthy(st['depends_on_itself']) == z3.And(idx < i, MAT(idx, idx) != 0))
    cx.invariant(0, inv)

    def post(st, r):
        selfdep = MAT(idx, idx) != 0
        geq = z3.ForAll([j], z3.Implies(z3.And(0 <= j, j < n, dep(j)), r.t >= VF(monos.t[j]) + z3.If(selfdep, 0, 1)))
        att = z3.Or(r.t == 1, z3.Exists([j], z3.And(0 <= j, j < n, dep(j), r.t == VF(monos.t[j]) + z3.If(selfdep, 0, 1))))
        return z3.And(r.t >= 1, geq, att)
    cx.ensures(post)
