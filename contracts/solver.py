"""Sidecar contracts: recurrences/solver/acyclic_solver.py (C04, C01)."""
import z3
from pyvc.core import *
from pyvc.verify import contract, ind

F = 'recurrences/solver/acyclic_solver.py'
VF = z3.Function('valid_from', REF, I)              # spec value of _get_valid_from on a monomial (recursive calls use the contract)
MAT = z3.Function('recurrence_matrix', I, I, R)
IDX = z3.Function('monom_to_index', REF, I)


@contract(F, 'AcyclicSolver._get_valid_from', ['C04', 'C01'])
def get_valid_from(cx):
    """The first n from which the summed solution of a monomial is valid: at least the validity of EVERY dependency (one more if the
    monomial does not depend on itself), attained by some dependency, and at least 1."""
    monos = cx.seq('monomials', DRef('Expr')); mono = cx.ref('monomial')
    rec = cx.obj('Recurrences', monomials=monos, recurrence_matrix=V('fn2', MAT, wrap=lambda t: VN(t)))
    m2i = V('map', (z3.Lambda([z3.Const('v', REF)], IDX(z3.Const('v', REF))), z3.K(REF, z3.BoolVal(True))), kk=DRef(), vk=DI)
    cx.param(self=cx.obj('AcyclicSolver', recurrences=rec, monom_to_index=m2i), monomial=mono)
    cx.call('_get_valid_from', lambda ex, st, r, a, kw: VI(VF(a[0].t)), trusted='recursive call: same contract on the dependency (acyclic system)')
    idx = IDX(mono.t); n = z3.Length(monos.t); j = z3.Int('j')
    cx.requires(0 <= idx, idx < n, z3.ForAll([j], VF(monos.t[j]) >= 1))
    dep = lambda k: z3.And(k != idx, MAT(idx, k) != 0)

    def inv(st):
        i = st['$i0'].t; vf = st['valid_from'].t
        return z3.And(vf >= 0,
                      z3.ForAll([j], z3.Implies(z3.And(0 <= j, j < i, dep(j)), VF(monos.t[j]) <= vf)),
                      z3.Or(vf == 0, z3.Exists([j], z3.And(0 <= j, j < i, dep(j), VF(monos.t[j]) == vf))),
                      truthy(st['depends_on_itself']) == z3.And(idx < i, MAT(idx, idx) != 0))
    cx.invariant(0, inv)

    def post(st, r):
        selfdep = MAT(idx, idx) != 0
        geq = z3.ForAll([j], z3.Implies(z3.And(0 <= j, j < n, dep(j)), r.t >= VF(monos.t[j]) + z3.If(selfdep, 0, 1)))
        att = z3.Or(r.t == 1, z3.Exists([j], z3.And(0 <= j, j < n, dep(j), r.t == VF(monos.t[j]) + z3.If(selfdep, 0, 1))))
        return z3.And(r.t >= 1, geq, att)
    cx.ensures(post)


ITER = z3.Function('iterate', I, I, R)          # ITER(k, i) = (A^k v)_i : the exact k-th iterate of the recurrence system (spec)


def vector_model(cx):
    """vectors A^k v are represented by their iterate count k; matrix * vector advances the count; vector[i] is ITER(k, i)"""
    cx.set_hook('binop', lambda ex, st, op, a, b: VI(toint(b) + 1) if (op == 'Mult' and a.kind == 'fn2') else None)
    cx.set_hook('index_hook', lambda ex, st, o, i: VR(ITER(o.t, toint(i))) if (o.kind == 'int' and i.kind == 'int') else None)


@contract('recurrences/solver/cyclic_solver.py', 'CyclicSolver._add_beginning_values', ['C04', 'C01'])
def add_beginning_values(cx):
    """Piecewise( ((A^i v)_idx, n <= i) for i = 0..degree-1 ; (general solution, True) ): the listed special cases are the exact iterates"""
    sol = cx.real('solution'); idx = cx.int('monom_index'); deg = cx.int('degree'); n = cx.real('n')
    rec = cx.obj('Recurrences', init_values_vector=VI(0), recurrence_matrix=V('fn2', MAT, wrap=lambda t: VN(t)))
    cx.param(self=cx.obj('CyclicSolver', recurrences=rec, characteristic_poly=cx.ref('charpoly'), n=n), solution=sol, monom_index=idx)
    vector_model(cx)
    cx.call('degree', lambda ex, st, r, a, kw: deg)
    cx.call('Piecewise', lambda ex, st, r, a, kw: a[0])
    cx.requires(deg.t >= 1)
    cx.set_hook('empty_kinds', {'pieces': DSeq(DTuple(DR, DB))})
    _, mk, (pv, pc) = tuple_sort([DR, DB])
    j = z3.Int('j')
    cx.invariant(0, lambda st: z3.And(z3.Length(st['beginning_values'].t) == st['$i0'].t + 1,
                                      z3.ForAll([j], z3.Implies(z3.And(0 <= j, j <= st['$i0'].t), st['beginning_values'].t[j] == j))))
    cx.invariant(1, lambda st: z3.And(z3.Length(st['pieces'].t) == st['$i1'].t,
                                      z3.ForAll([j], z3.Implies(z3.And(0 <= j, j < st['$i1'].t), z3.And(pv(st['pieces'].t[j]) == ITER(j, idx.t), pc(st['pieces'].t[j]) == (n.t <= z3.ToReal(j)))))))

    def post(st, r):
        return z3.And(z3.Length(r.t) == deg.t + 1, pv(r.t[deg.t]) == sol.t, pc(r.t[deg.t]),
                      z3.ForAll([j], z3.Implies(z3.And(0 <= j, j < deg.t), z3.And(pv(r.t[j]) == ITER(j, idx.t), pc(r.t[j]) == (n.t <= z3.ToReal(j))))))
    cx.ensures(post)


@contract(F, 'AcyclicSolver.get', ['C04', 'C01'])
def acyclic_get(cx):
    """Piecewise( ((A^i v)_idx, n <= i) for i < valid_from(monomial) ; (summed solution, True) )"""
    mono = cx.ref('monomial'); n = cx.real('n'); vf = cx.int('valid_from'); sol = cx.real('solution_without_zero')
    rec = cx.obj('Recurrences', init_values_vector=VI(0), recurrence_matrix=V('fn2', MAT, wrap=lambda t: VN(t)))
    m2i = V('map', (z3.Lambda([z3.Const('v', REF)], IDX(z3.Const('v', REF))), z3.K(REF, z3.BoolVal(True))), kk=DRef(), vk=DI)
    cx.param(self=cx.obj('AcyclicSolver', recurrences=rec, monom_to_index=m2i, n=n), monomial=mono)
    vector_model(cx)
    cx.call('sympify', lambda ex, st, r, a, kw: a[0])
    cx.call('_get_without_zero', lambda ex, st, r, a, kw: sol, trusted='_get_without_zero: summed solution, valid from valid_from on (bounded C04 certificate)')
    cx.call('_get_valid_from', lambda ex, st, r, a, kw: vf, trusted='_get_valid_from contract (above)')
    cx.call('Piecewise', lambda ex, st, r, a, kw: a[0])
    cx.requires(vf.t >= 1)
    cx.set_hook('empty_kinds', {'pieces': DSeq(DTuple(DR, DB))})
    _, mk, (pv, pc) = tuple_sort([DR, DB])
    j = z3.Int('j'); idx = IDX(mono.t)
    cx.invariant(0, lambda st: z3.And(z3.Length(st['pieces'].t) == st['$i0'].t, toint(st['value']) == st['$i0'].t,
                                      z3.ForAll([j], z3.Implies(z3.And(0 <= j, j < st['$i0'].t), z3.And(pv(st['pieces'].t[j]) == ITER(j, idx), pc(st['pieces'].t[j]) == (n.t <= z3.ToReal(j)))))))

    def post(st, r):
        return z3.And(z3.Length(r.t) == vf.t + 1, pv(r.t[vf.t]) == sol.t, pc(r.t[vf.t]),
                      z3.ForAll([j], z3.Implies(z3.And(0 <= j, j < vf.t), z3.And(pv(r.t[j]) == ITER(j, idx), pc(r.t[j]) == (n.t <= z3.ToReal(j))))))
    cx.ensures(post)


def _summation_contract(cx, what):
    """shared: the CAS value model for sums.  INH(x) = the inhomogeneous part with n := x."""
    INH = z3.Function('inhom_at', R, R)
    return INH


@contract('utils/solvers.py', 'solve_rec_by_summing', ['C14'])
def solve_rec_by_summing_c(cx):
    """x(n) = c*x(n-1) + inhom(n), x(0) = init  is solved as  c**n*init + SUM_{k=0}^{n-1} c**k * inhom(n-k)  (or an equivalent re-indexing:
    SUM_{k=1}^{n} c**(n-k)*inhom(k)): the summand handed to the CAS and the summation range are exactly that."""
    c = cx.real('rec_coeff'); x0 = cx.real('init_value'); N = z3.Real('n_symbol')
    INH = z3.Function('inhom_at', R, R); OTHER = z3.Function('name_of_other_symbol', R, S)
    inhom = V('real', INH(N), is_inhom=True)
    cx.param(rec_coeff=c, init_value=x0, inhom_part=inhom)
    fs = cx.seq('free_symbols_of_inhom', DR)
    cx.attr('free_symbols', lambda ex, st, o: fs)
    xq = z3.Real('xq')
    cx.axiom(z3.ForAll([xq], OTHER(xq) != z3.StringVal('n')))
    cx.call('str', lambda ex, st, r, a, kw: V('str', z3.If(toreal(a[0]) == N, z3.StringVal('n'), OTHER(toreal(a[0])))), trusted='only the symbol n is called "n"')
    K = z3.Real('k_symbol')
    cx.call('symbols', lambda ex, st, r, a, kw: VR(K) if (a and a[0].kind == 'str' and not z3.is_string_value(a[0].t)) else VR(N))
    cx.call('get_unique_var', lambda ex, st, r, a, kw: V('str', ex.fresh(S, 'kname')))

    def xreplace(ex, st, r, a, kw):
        m = a[0]
        if not r.get('is_inhom') or m.kind != 'map': raise OutOfReach('xreplace')
        arr, dom = m.t
        vals = []
        t = arr
        while z3.is_store(t): vals.append((t.arg(1), t.arg(2))); t = t.arg(0)
        if len(vals) != 1: raise OutOfReach('xreplace with other than one substitution')
        key, val = vals[0]
        ex.need(st, key == N, 'substitution.replaces-n@0', 'ensures')
        return VR(INH(val))
    cx.call('xreplace', xreplace, trusted='Expr.xreplace({n: e}): the expression with n := e')
    cx.call('simplify', lambda ex, st, r, a, kw: r)
    cx.call('without_piecewise', lambda ex, st, r, a, kw: a[0])
    EXPO = z3.Function('power', R, R, R)                 # a ** e for CAS expressions (exponents are expressions in n and k)
    SUMV = z3.Function('sum_value', R, R, R, R)          # opaque value of the CAS sum (summand as a value at the symbolic k, lo, hi)

    def summation(ex, st, r, a, kw):
        summand = toreal(a[0]); lim = a[1]
        if lim.kind != 'tuple' or len(lim.t) != 3: raise OutOfReach('summation limits')
        kk, lo, hi = [toreal(x) for x in lim.t]
        n = toreal(st['n']); cc = c.t
        form_a = z3.And(summand == EXPO(cc, K) * INH(n - K), lo == 0, hi == n - 1)           # SUM_{k=0}^{n-1} c**k * inhom(n-k)
        form_b = z3.And(summand == EXPO(cc, n - K) * INH(K), lo == 1, hi == n)               # SUM_{k=1}^{n} c**(n-k) * inhom(k)
        ex.need(st, z3.And(kk == K, n == N, z3.Or(form_a, form_b)), 'particular-solution.summand-and-range@0', 'ensures')
        return VR(SUMV(summand, lo, hi))
    cx.call('summation', summation, trusted='sympy summation(f, (k, lo, hi)) = SUM_{k=lo}^{hi} f')
    cx.set_hook('binop', lambda ex, st, op, a, b: VR(EXPO(toreal(a), toreal(b))) if op == 'Pow' else None)
    cx.invariant(0, lambda st: z3.Or(st['n'].kind == 'none', toreal(st['n']) == N) if st['n'].kind != 'none' else z3.BoolVal(True))
    cx.ensures(lambda st, r: z3.BoolVal(True))


@contract('recurrences/solver/acyclic_solver.py', 'AcyclicSolver._solve_rec_by_summing', ['C04', 'C01'])
def acyclic_solve_rec_by_summing(cx):
    """x(n+1) = c*x(n) + inhom(n) valid from n = start, x(start) = first  is solved as
    c**(n-start)*first + SUM_{k=start}^{n-1} c**(n-k-1) * inhom(k): the summand handed to the CAS and the summation range are exactly that, on the
    direct path and on the term-by-term fallback (D27)."""
    c = cx.real('rec_coeff'); first = cx.real('first_value'); start = cx.int('start'); N = z3.Real('n_symbol')
    INH = z3.Function('inhom_at', R, R); EXPO = z3.Function('power', R, R, R); SUMV = z3.Function('sum_value', R, R, R, R)
    inhom = V('real', INH(N), is_inhom=True)
    me = cx.obj('AcyclicSolver', n=VR(N))
    cx.param(self=me, rec_coeff=c, first_value=first, inhom_part=inhom, start=start)
    K = z3.Real('k_symbol')
    cx.call('symbols', lambda ex, st, r, a, kw: VR(K))

    def xreplace(ex, st, r, a, kw):
        m = a[0]
        if not r.get('is_inhom') or m.kind != 'map': raise OutOfReach('xreplace')
        t = m.t[0]; vals = []
        while z3.is_store(t): vals.append((t.arg(1), t.arg(2))); t = t.arg(0)
        if len(vals) != 1: raise OutOfReach('xreplace with other than one substitution')
        ex.need(st, vals[0][0] == N, 'substitution.replaces-n@0', 'ensures')
        return VR(INH(vals[0][1]))
    cx.call('xreplace', xreplace, trusted='Expr.xreplace({n: e}): the expression with n := e')
    cx.call('simplify', lambda ex, st, r, a, kw: r); cx.call('expand', lambda ex, st, r, a, kw: r)
    cx.call('without_piecewise', lambda ex, st, r, a, kw: a[0])

    def summation(ex, st, r, a, kw):
        summand = toreal(a[0]); lim = a[1]
        if lim.kind != 'tuple' or len(lim.t) != 3: raise OutOfReach('summation limits')
        kk, lo, hi = [toreal(x) for x in lim.t]
        ex.need(st, z3.And(kk == K, summand == EXPO(c.t, N - K - 1) * INH(K), lo == z3.ToReal(start.t), hi == N - 1), 'particular-solution.summand-and-range@0', 'ensures')
        return VR(SUMV(summand, lo, hi))
    cx.call('summation', summation, trusted='sympy summation(f, (k, lo, hi)) = SUM_{k=lo}^{hi} f')
    cx.call('make_args', lambda ex, st, r, a, kw: V('terms', toreal(a[0])))

    def add(ex, st, r, a, kw):
        comp = a[0]
        if comp.kind != 'comp' or comp.x['src'].kind != 'terms': raise OutOfReach('Add(...)')
        cst = comp.x['st'].fork(); cst.vars[comp.x['target'].id] = VR(comp.x['src'].t)      # linearity: the sum over the terms is the sum of the whole summand
        return ex.ev(comp.x['elt'], cst)
    cx.call('Add', add, trusted='SUM over the terms of the expanded summand of SUM_k term = SUM_k summand (linearity)')
    cx.set_hook('binop', lambda ex, st, op, a, b: VR(EXPO(toreal(a), toreal(b))) if op == 'Pow' else None)
    cx.ensures(lambda st, r: toreal(r) == EXPO(c.t, N - z3.ToReal(start.t)) * first.t + SUMV(EXPO(c.t, N - K - 1) * INH(K), z3.ToReal(start.t), N - 1))


@contract('utils/expressions.py', 'get_all_roots', ['C04', 'C17'])
def get_all_roots_c(cx):
    """numeric mode: every isolating interval [h, l] with multiplicity m yields the root (h + l)/2 with multiplicity m; the result is flagged exact
    only if EVERY interval is a point; if the multiplicities do not add up to the degree (roots were lost: D17) the call is refused instead of
    answered.  Symbolic mode: the roots as delivered by the CAS, flagged exact unless complex roots were made numeric and one of them was not exact."""
    TS, mk, (acc_iv, acc_m) = tuple_sort([DTuple(DR, DR), DI])
    IV, mkiv, (acc_h, acc_l) = tuple_sort([DR, DR])
    numeric = cx.bool('numeric'); ncroots = cx.bool('numeric_croots'); eps = cx.real('eps')
    reals = cx.seq('real_intervals', DTuple(DTuple(DN, DN), DI)); cplx = cx.seq('complex_intervals', DTuple(DTuple(DN, DN), DI))       # interval endpoints are numbers: == is by value
    sym_roots = cx.seq('symbolic_roots', DTuple(DR, DI))
    ALL_SUPPORTED = cx.bool('complex_isolation_supported'); DEG = cx.int('degree')
    poly = cx.ref('poly')
    cx.param(poly=poly, numeric=numeric, numeric_croots=ncroots, eps=eps)

    def intervals(ex, st, r, a, kw):
        if 'all' in kw:
            if not ex.dry: ex.raises_in_try = True
            return VTuple(reals, cplx)
        return reals
    cx.call('intervals', intervals, trusted='Poly.intervals(all=True) = (real, complex) isolating intervals with multiplicities; Poly.intervals() = the real ones; NotImplementedError where complex isolation is unsupported')
    cx.isinstance(lambda ex, st, o, cls: z3.BoolVal(o.kind == 'tuple'))
    cx.call('degree', lambda ex, st, r, a, kw: DEG)
    cx.call('all_roots', lambda ex, st, r, a, kw: sym_roots, trusted='Poly.all_roots(multiple=False): (root, multiplicity) pairs')
    cx.call('roots', lambda ex, st, r, a, kw: V('opaque')); cx.call('items', lambda ex, st, r, a, kw: V('opaque')); cx.call('list', lambda ex, st, r, a, kw: sym_roots if a and a[0].kind == 'opaque' else NotImplemented)
    NUMR = z3.Function('numerified_root', R, R); NUME = z3.Function('numerified_is_exact', R, B)
    cx.call('numerify_croots', lambda ex, st, r, a, kw: VTuple(VR(NUMR(toreal(a[0]))), VB(NUME(toreal(a[0])))), trusted='numerify_croots(r): (numeric value, exactness)')
    cx.call('NotImplementedError', lambda ex, st, r, a, kw: V('exc', 'NotImplementedError'))
    cx.set_hook('empty_kinds', {'tmp': DSeq(DTuple(DTuple(DN, DN), DI)), 'result': DSeq(DTuple(DR, DI))})
    RS, mkr, (acc_root, acc_mult) = tuple_sort([DR, DI])
    j = z3.Int('j')
    MSUM = z3.RecFunction('multiplicity_sum', z3.SeqSort(RS), I, I); sq = z3.Const('sq', z3.SeqSort(RS)); kk = z3.Int('kk')
    z3.RecAddDefinition(MSUM, [sq, kk], z3.If(kk <= 0, 0, MSUM(sq, kk - 1) + acc_mult(sq[kk - 1])))

    def sum_(ex, st, r, a, kw):
        c = a[0]
        if c.kind == 'comp' and c.x['src'].kind == 'seq' and isinstance(c.x['elt'], ast.Name) and isinstance(c.x['target'], ast.Tuple) \
                and len(c.x['target'].elts) == 2 and isinstance(c.x['target'].elts[1], ast.Name) and c.x['target'].elts[1].id == c.x['elt'].id:
            return VI(MSUM(c.x['src'].t, z3.Length(c.x['src'].t)))            # sum([m for _, m in result])
        return NotImplemented
    import ast
    cx.call('sum', sum_)
    both = z3.Concat(reals.t, cplx.t)
    cx.invariant(0, lambda st: st['tmp'].t == z3.If(st['$i0'].t <= 0, z3.Empty(reals.t.sort()), z3.If(st['$i0'].t == 1, reals.t, both)))

    def inv_numeric(st):
        P = st['poly_roots'].t; i = st['$i1'].t; res = st['result'].t
        mid = lambda q: (acc_h(acc_iv(P[q])) + acc_l(acc_iv(P[q]))) / 2
        return z3.And(z3.Length(res) == i, MSUM(res, i) == MSUM(res, z3.Length(res)),
                      z3.ForAll([j], z3.Implies(z3.And(0 <= j, j < i), z3.And(acc_root(res[j]) == mid(j), acc_mult(res[j]) == acc_m(P[j])))),
                      st['exact'].t == z3.ForAll([j], z3.Implies(z3.And(0 <= j, j < i), acc_h(acc_iv(P[j])) == acc_l(acc_iv(P[j])))))
    cx.invariant(1, inv_numeric)

    def inv_symbolic(st):
        P = st['poly_roots'].t; i = st['$i2'].t; res = st['result'].t
        return z3.And(z3.Length(res) == i,
                      z3.ForAll([j], z3.Implies(z3.And(0 <= j, j < i), z3.And(acc_mult(res[j]) == acc_mult(P[j]),
                                                                                   acc_root(res[j]) == z3.If(ncroots.t, NUMR(acc_root(P[j])), acc_root(P[j]))))),
                      st['exact'].t == z3.Implies(ncroots.t, z3.ForAll([j], z3.Implies(z3.And(0 <= j, j < i), NUME(acc_root(P[j]))))))
    cx.invariant(2, inv_symbolic)

    def post(st, r):
        res, ex_ = r.t[0].t, r.t[1].t
        if 'tmp' in st.vars or st['numeric'].kind == 'bool':
            pass
        P = st['poly_roots'].t
        num = z3.And(z3.Length(res) == z3.Length(P), MSUM(res, z3.Length(res)) == DEG.t,
                     z3.ForAll([j], z3.Implies(z3.And(0 <= j, j < z3.Length(P)), z3.And(acc_root(res[j]) == (acc_h(acc_iv(P[j])) + acc_l(acc_iv(P[j]))) / 2, acc_mult(res[j]) == acc_m(P[j])))),
                     ex_ == z3.ForAll([j], z3.Implies(z3.And(0 <= j, j < z3.Length(P)), acc_h(acc_iv(P[j])) == acc_l(acc_iv(P[j]))))) if P.sort() == reals.t.sort() else None
        sym = z3.And(z3.Length(res) == z3.Length(P),
                     ex_ == z3.Implies(ncroots.t, z3.ForAll([j], z3.Implies(z3.And(0 <= j, j < z3.Length(P)), NUME(acc_root(P[j])))))) if P.sort() != reals.t.sort() else None
        return num if num is not None else sym
    cx.ensures(post)

    def exc(st, e):
        if 'result' in st.vars and st['result'].kind == 'seq' and not st['result'].get('empty'):
            res = st['result'].t
            return MSUM(res, z3.Length(res)) != DEG.t           # refused only when roots were lost
        return z3.BoolVal(True)                                  # errors of the CAS itself (all_roots for degree >= 5) are passed on
    cx.raises(exc)


@contract('unsolvable_analysis/unsolv_inv_synthesizer.py', 'UnsolvInvSynthesizer.__get_init_value_candidate__', ['C14'])
def init_value_candidate(cx):
    """the initial value of the candidate  sum_j m_j * u_j  (m_j a monomial in the program variables, u_j its unknown coefficient) is
    sum_j E(m_j at n = 0) * u_j  with the initial expectation of each monomial taken AS A WHOLE by RecBuilder.get_initial_value
    (E(x0**2) is not E(x0)**2 for a random initial value)."""
    TS, mk, (acc_a, acc_b) = tuple_sort([DR, DR])
    INIT = z3.Function('initial_expectation_of_monomial', R, R); MUL = z3.Function('times', R, R, R)
    cand = cx.real('candidate'); pairs = cx.seq('pairs', DTuple(DR, DR))
    rb = cx.obj('RecBuilder', program=cx.obj('Program', variables=V('opaque')))
    cx.param(cls=cx.ref('cls'), candidate=cand, rec_builder=rb)
    cx.call('get_monoms', lambda ex, st, r, a, kw: pairs, trusted='get_monoms(candidate, program variables as constants): (variable monomial, unknown coefficient) pairs (contract in contracts/expressions.py)')
    cx.call('get_initial_value', lambda ex, st, r, a, kw: VR(INIT(toreal(a[0]))), trusted='RecBuilder.get_initial_value contract')
    cx.set_hook('binop', lambda ex, st, op, a, b: VR(MUL(toreal(a), toreal(b))) if op == 'Mult' else None)
    cx.call('xreplace', lambda ex, st, r, a, kw: VR(z3.Function('after_substitution', R, R)(toreal(r))))          # any substitution: some other expression
    sq = z3.Const('sq', z3.SeqSort(TS)); g = z3.Int('g')
    SUMI = z3.RecFunction('sum_of_initial_values', z3.SeqSort(TS), I, R)
    z3.RecAddDefinition(SUMI, [sq, g], z3.If(g <= 0, z3.RealVal(0), SUMI(sq, g - 1) + MUL(INIT(acc_a(sq[g - 1])), acc_b(sq[g - 1]))))
    cx.invariant(0, lambda st: toreal(st['ans']) == SUMI(pairs.t, st['$i0'].t))
    cx.ensures(lambda st, r: toreal(r) == SUMI(pairs.t, z3.Length(pairs.t)))
