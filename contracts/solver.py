"""Sidecar contracts: recurrences/solver/acyclic_solver.py (C04, C01)."""
import z3
from pyvc.core import *
from pyvc.verify import contract, ind

F = 'recurrences/solver/acyclic_solver.py'
VF = z3.Function('valid_from', REF, I)              # spec value of _get_valid_from on a monomial (recursive calls use the contract)
MAT = z3.Function('recurrence_matrix', I, I, R)
IDX = z3.Function('monom_to_index', REF, I)


@contract(F, 'AcyclicSolver._get_valid_from', ['C04', 'C01'])
def get_valid_from(cx):
    """The first n from which the summed solution of a monomial is valid: at least the validity of EVERY dependency (one more if the
    monomial does not depend on itself), attained by some dependency, and at least 1."""
    monos = cx.seq('monomials', DRef('Expr')); mono = cx.ref('monomial')
    rec = cx.obj('Recurrences', monomials=monos, recurrence_matrix=V('fn2', MAT, wrap=lambda t: VN(t)))
    m2i = V('map', (z3.Lambda([z3.Const('v', REF)], IDX(z3.Const('v', REF))), z3.K(REF, z3.BoolVal(True))), kk=DRef(), vk=DI)
    cx.param(self=cx.obj('AcyclicSolver', recurrences=rec, monom_to_index=m2i), monomial=mono)
    cx.call('_get_valid_from', lambda ex, st, r, a, kw: VI(VF(a[0].t)), trusted='recursive call: same contract on the dependency (acyclic system)')
    idx = IDX(mono.t); n = z3.Length(monos.t); j = z3.Int('j')
    cx.requires(0 <= idx, idx < n, z3.ForAll([j], VF(monos.t[j]) >= 1))
    dep = lambda k: z3.And(k != idx, MAT(idx, k) != 0)

    def inv(st):
        i = st['$i0'].t; vf = st['valid_from'].t
        return z3.And(vf >= 0,
                      z3.ForAll([j], z3.Implies(z3.And(0 <= j, j < i, dep(j)), VF(monos.t[j]) <= vf)),
                      z3.Or(vf == 0, z3.Exists([j], z3.And(0 <= j, j < i, dep(j), VF(monos.t[j]) == vf))),
                      truthy(st['depends_on_itself']) == z3.And(idx < i, MAT(idx, idx) != 0))
    cx.invariant(0, inv)

    def post(st, r):
        selfdep = MAT(idx, idx) != 0
        geq = z3.ForAll([j], z3.Implies(z3.And(0 <= j, j < n, dep(j)), r.t >= VF(monos.t[j]) + z3.If(selfdep, 0, 1)))
        att = z3.Or(r.t == 1, z3.Exists([j], z3.And(0 <= j, j < n, dep(j), r.t == VF(monos.t[j]) + z3.If(selfdep, 0, 1))))
        return z3.And(r.t >= 1, geq, att)
    cx.ensures(post)


ITER = z3.Function('iterate', I, I, R)          # ITER(k, i) = (A^k v)_i : the exact k-th iterate of the recurrence system (spec)


def vector_model(cx):
    """vectors A^k v are represented by their iterate count k; matrix * vector advances the count; vector[i] is ITER(k, i)"""
    cx.set_hook('binop', lambda ex, st, op, a, b: VI(toint(b) + 1) if (op == 'Mult' and a.kind == 'fn2') else None)
    cx.set_hook('index_hook', lambda ex, st, o, i: VR(ITER(o.t, toint(i))) if (o.kind == 'int' and i.kind == 'int') else None)


@contract('recurrences/solver/cyclic_solver.py', 'CyclicSolver._add_beginning_values', ['C04', 'C01'])
def add_beginning_values(cx):
    """Piecewise( ((A^i v)_idx, n <= i) for i = 0..degree-1 ; (general solution, True) ): the listed special cases are the exact iterates"""
    sol = cx.real('solution'); idx = cx.int('monom_index'); deg = cx.int('degree'); n = cx.real('n')
    rec = cx.obj('Recurrences', init_values_vector=VI(0), recurrence_matrix=V('fn2', MAT, wrap=lambda t: VN(t)))
    cx.param(self=cx.obj('CyclicSolver', recurrences=rec, characteristic_poly=cx.ref('charpoly'), n=n), solution=sol, monom_index=idx)
    vector_model(cx)
    cx.call('degree', lambda ex, st, r, a, kw: deg)
    cx.call('Piecewise', lambda ex, st, r, a, kw: a[0])
    cx.requires(deg.t >= 1)
    cx.set_hook('empty_kinds', {'pieces': DSeq(DTuple(DR, DB))})
    _, mk, (pv, pc) = tuple_sort([DR, DB])
    j = z3.Int('j')
    cx.invariant(0, lambda st: z3.And(z3.Length(st['beginning_values'].t) == st['$i0'].t + 1,
                                      z3.ForAll([j], z3.Implies(z3.And(0 <= j, j <= st['$i0'].t), st['beginning_values'].t[j] == j))))
    cx.invariant(1, lambda st: z3.And(z3.Length(st['pieces'].t) == st['$i1'].t,
                                      z3.ForAll([j], z3.Implies(z3.And(0 <= j, j < st['$i1'].t), z3.And(pv(st['pieces'].t[j]) == ITER(j, idx.t), pc(st['pieces'].t[j]) == (n.t <= z3.ToReal(j)))))))

    def post(st, r):
        return z3.And(z3.Length(r.t) == deg.t + 1, pv(r.t[deg.t]) == sol.t, pc(r.t[deg.t]),
                      z3.ForAll([j], z3.Implies(z3.And(0 <= j, j < deg.t), z3.And(pv(r.t[j]) == ITER(j, idx.t), pc(r.t[j]) == (n.t <= z3.ToReal(j))))))
    cx.ensures(post)


@contract(F, 'AcyclicSolver.get', ['C04', 'C01'])
def acyclic_get(cx):
    """Piecewise( ((A^i v)_idx, n <= i) for i < valid_from(monomial) ; (summed solution, True) )"""
    mono = cx.ref('monomial'); n = cx.real('n'); vf = cx.int('valid_from'); sol = cx.real('solution_without_zero')
    rec = cx.obj('Recurrences', init_values_vector=VI(0), recurrence_matrix=V('fn2', MAT, wrap=lambda t: VN(t)))
    m2i = V('map', (z3.Lambda([z3.Const('v', REF)], IDX(z3.Const('v', REF))), z3.K(REF, z3.BoolVal(True))), kk=DRef(), vk=DI)
    cx.param(self=cx.obj('AcyclicSolver', recurrences=rec, monom_to_index=m2i, n=n), monomial=mono)
    vector_model(cx)
    cx.call('sympify', lambda ex, st, r, a, kw: a[0])
    cx.call('_get_without_zero', lambda ex, st, r, a, kw: sol, trusted='_get_without_zero: summed solution, valid from valid_from on (bounded C04 certificate)')
    cx.call('_get_valid_from', lambda ex, st, r, a, kw: vf, trusted='_get_valid_from contract (above)')
    cx.call('Piecewise', lambda ex, st, r, a, kw: a[0])
    cx.requires(vf.t >= 1)
    cx.set_hook('empty_kinds', {'pieces': DSeq(DTuple(DR, DB))})
    _, mk, (pv, pc) = tuple_sort([DR, DB])
    j = z3.Int('j'); idx = IDX(mono.t)
    cx.invariant(0, lambda st: z3.And(z3.Length(st['pieces'].t) == st['$i0'].t, toint(st['value']) == st['$i0'].t,
                                      z3.ForAll([j], z3.Implies(z3.And(0 <= j, j < st['$i0'].t), z3.And(pv(st['pieces'].t[j]) == ITER(j, idx), pc(st['pieces'].t[j]) == (n.t <= z3.ToReal(j)))))))

    def post(st, r):
        return z3.And(z3.Length(r.t) == vf.t + 1, pv(r.t[vf.t]) == sol.t, pc(r.t[vf.t]),
                      z3.ForAll([j], z3.Implies(z3.And(0 <= j, j < vf.t), z3.And(pv(r.t[j]) == ITER(j, idx), pc(r.t[j]) == (n.t <= z3.ToReal(j))))))
    cx.ensures(post)
