"""Sidecar contracts: type_inference/finite_fixed_point_typer.py (C05)."""
import z3
from pyvc.core import *
from pyvc.verify import contract, ind

F = 'type_inference/finite_fixed_point_typer.py'
FP = z3.Function('fixedpoint_reached', REF, B)         # on the abstract typer state (ghost version of self.state)
TYPES = z3.Function('extract_types', REF, REF)


@contract(F, 'FiniteFixedPointTyper.infer_types', ['C05'])
def infer_types(cx):
    """exit lemma of the fixed-point computation: types are only extracted from a state in which no variable changed in the last
    progress step (post-fixpoint: every unlocked variable's newly computed value set was already contained) -- soundness of the value
    sets then follows by induction over iterations (lemma L-fix)."""
    iters = cx.int('iterations')
    STATUSES = z3.Function('statuses', REF, z3.SeqSort(REF))       # the Status objects of self.state in a given ghost version
    CHG = z3.Function('has_changed', REF, B); LCK = z3.Function('is_locked', REF, B)
    v0 = z3.Const('typer_state0', REF)
    me = cx.obj('FiniteFixedPointTyper', iterations=iters, program=cx.ref('old_program'), state=V('seq', STATUSES(v0), ek=DRef('Status')))
    cx.param(self=me, program=cx.ref('program'))
    cx.st.vars['$state'] = V('ref', v0)
    cx.set_hook('loop_ghosts', ['$state'])
    cx.field('has_changed', lambda ex, st, o: VB(CHG(o.t))); cx.field('is_locked', lambda ex, st, o: VB(LCK(o.t)))
    cx.call('values', lambda ex, st, r, a, kw: V('seq', STATUSES(st.vars['$state'].t), ek=DRef('Status')))
    jq = z3.Int('jq'); vq = z3.Const('vq', REF)
    # meaning of _fixedpoint_reached (its own one-line body: all(not s.has_changed ...)): no status of the current state has has_changed set
    cx.axiom(z3.ForAll([vq], FP(vq) == z3.ForAll([jq], z3.Implies(z3.And(0 <= jq, jq < z3.Length(STATUSES(vq))), z3.Not(CHG(STATUSES(vq)[jq]))))))

    def mutate(ex, st, r, a, kw):
        st.vars['$state'] = V('ref', ex.fresh(REF, 'typer_state'))
        return VNone()
    for nm in ('_initialize_state', '_progress', '_fail_changed_variables'):
        cx.call(nm, mutate, trusted=f'{nm}: updates self.state (bounded C05 check)')
    cx.call('_check_applicability', lambda ex, st, r, a, kw: VNone())
    cx.call('_fixedpoint_reached', lambda ex, st, r, a, kw: VB(FP(st.vars['$state'].t)), trusted='_fixedpoint_reached: no status has has_changed set')
    cx.call('_extract_types', lambda ex, st, r, a, kw: V('ref', TYPES(st.vars['$state'].t)), trusted='_extract_types: non-failed all-numeric value sets')
    cx.requires(iters.t >= 0)
    cx.invariant(0, lambda st: z3.BoolVal(True))
    cx.invariant(1, lambda st: z3.BoolVal(True))
    cx.ensures(lambda st, r: z3.And(FP(st.vars['$state'].t), r.t == TYPES(st.vars['$state'].t)))
    cx.lemmas.append(('L-fix: a state that is a post-fixpoint of _progress contains every reachable value (induction over loop iterations)', None))


@contract(F, 'FiniteFixedPointTyper._fixedpoint_reached', ['C05'])
def fixedpoint_reached(cx):
    CHG = z3.Function('has_changed', REF, B)
    statuses = cx.seq('statuses', DRef('Status'))
    cx.param(self=cx.obj('FiniteFixedPointTyper', state=statuses))
    cx.field('has_changed', lambda ex, st, o: VB(CHG(o.t)))
    cx.call('values', lambda ex, st, r, a, kw: statuses)
    j = z3.Int('j')
    cx.ensures(lambda st, r: truthy(r) == z3.ForAll([j], z3.Implies(z3.And(0 <= j, j < z3.Length(statuses.t)), z3.Not(CHG(statuses.t[j])))))


@contract(F, 'FiniteFixedPointTyper._update_variable_status', ['C05'])
def update_variable_status(cx):
    """value sets only grow; has_changed is cleared only if the newly computed values were already contained (post-fixpoint test); an empty /
    False result (dependence on a failed variable) fails the variable"""
    newv = cx.set('new_values', DRef('Expr')); var = cx.ref('variable')
    VALUES = z3.Function('status_values', REF, z3.SeqSort(REF)); STATUS = z3.Function('status_of', REF, REF)
    state = V('map', (z3.Lambda([z3.Const('v', REF)], STATUS(z3.Const('v', REF))), z3.K(REF, z3.BoolVal(True))), kk=DRef(), vk=DRef('Status'))
    cx.param(self=cx.obj('FiniteFixedPointTyper', state=state), variable=var, new_values=newv)
    cx.field('values', lambda ex, st, o: st.vars.get('$values', V('set', VALUES(o.t), ek=DRef())))
    y = z3.Const('y', REF)
    subset = lambda a, b: z3.ForAll([y], z3.Implies(member(a, y), member(b, y)))
    cx.call('issubset', lambda ex, st, r, a, kw: VB(subset(r.t, a[0].t)))
    cx.st.vars['$failed'] = VB(False); cx.st.vars['$changed'] = V('none')

    def fail(ex, st, r, a, kw):
        st.vars['$failed'] = VB(True); return VNone()
    cx.call('_fail_variable', fail, trusted='_fail_variable: marks the variable failed, locked and changed')

    def ref_store(ex, st, o, attr, v):
        if attr == 'values': st.vars['$values'] = v
        elif attr == 'has_changed': st.vars['$changed'] = v
    cx.set_hook('ref_store', ref_store)
    old = VALUES(STATUS(var.t))

    def post(st, r):
        vals = st.vars.get('$values'); ch = st.vars['$changed']
        final = vals.t if vals is not None else old
        grow = subset(old, final)
        empty = z3.Length(newv.t) == 0
        return z3.And(grow, st['$failed'].t == empty,
                      z3.Implies(z3.Not(empty), z3.And(z3.BoolVal(ch.kind == 'bool'), (ch.t if ch.kind == 'bool' else z3.BoolVal(True)) == z3.Not(subset(newv.t, old)),
                                                       subset(newv.t, final))))
    cx.ensures(post)
