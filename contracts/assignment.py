"""Sidecar contracts: program/assignment/*.py (real source is read from /repo at run time)."""
import z3
from pyvc.core import *
from pyvc.verify import contract, ind

F_POLY = 'program/assignment/poly_assignment.py'
F_DIST = 'program/assignment/dist_assignment.py'
F_ASSIGN = 'program/assignment/assignment.py'


def psum(name, probs, polys, k):
    """spec function  S(j) = sum_{i<j} probs[i] * polys[i]**k"""
    Sf = z3.RecFunction(name, I, R)
    j = z3.Int('j')
    z3.RecAddDefinition(Sf, [j], z3.If(j <= 0, z3.RealVal(0), Sf(j - 1) + probs[j - 1] * POW(polys[j - 1], k)))
    return Sf


@contract(F_POLY, 'PolyAssignment.get_moment', ['C03', 'C01'])
def poly_get_moment(cx):
    polys = cx.seq('polys', DR); probs = cx.seq('probs', DR)
    k = cx.int('k'); c = cx.real('c'); rest = cx.real('rest'); d = cx.real('d')
    Sf = psum('S_poly', probs.t, polys.t, k.t)
    self = cx.obj('PolyAssignment', polynomials=polys, probabilities=probs, default=d)
    cx.param(self=self, k=k, rec_builder_context=cx.none(), arithm_cond=c, rest=rest)
    cx.requires(z3.Length(polys.t) == z3.Length(probs.t), k.t >= 0)
    cx.invariant(0, lambda st: toreal(st['if_cond']) == c.t * Sf(st['$i0'].t) * rest.t)
    # E[ X^k * rest ] split on the (0/1) condition indicator c: exact formula for every real c
    cx.ensures(lambda st, r: toreal(r) == c.t * Sf(z3.Length(polys.t)) * rest.t + (1 - c.t) * POW(d.t, k.t) * rest.t)
    cx.replay = dict(kind='poly_get_moment')


@contract(F_DIST, 'DistAssignment.get_moment', ['C03', 'C01', 'C13'])
def dist_get_moment(cx):
    k = cx.int('k'); c = cx.real('c'); rest = cx.real('rest'); d = cx.real('d')
    dep = cx.bool('contains_dependent_funcs')
    mom = z3.Function('dist_moment', I, R)          # contract of Distribution.get_moment (C08): k-th raw moment
    mixed = cx.real('mixed_func_moment')            # result of _get_mixed_func_moment (own contract)
    rest2 = cx.real('rest_without_func_vars')       # rest.xreplace({v: 1 for v in func_vars})
    dist = cx.ref('distribution', 'Distribution')
    ctx = cx.ref('ctx', 'RecBuilderContext')
    self = cx.obj('DistAssignment', distribution=dist, default=d, variable=cx.ref('variable', 'Symbol'))
    cx.param(self=self, k=k, rec_builder_context=ctx, arithm_cond=c, rest=rest)
    cx.requires(k.t >= 0)
    cx.call('_contains_dependent_funcs', lambda ex, st, recv, a, kw: dep)
    cx.call('_get_mixed_func_moment', lambda ex, st, recv, a, kw: mixed,
            trusted='E(dist^k * prod f_i(dist)^p_i) for the functional variables of rest (contract of get_func_moment, C13)')
    cx.call('get_moment', lambda ex, st, recv, a, kw: VR(mom(toint(a[0]))),
            trusted='Distribution.get_moment(k) = k-th raw moment (verified per family, C08)')
    cx.call('xreplace', lambda ex, st, recv, a, kw: rest2,
            trusted='rest.xreplace({v:1}) = rest with the functional variables removed')
    cx.field('dist_var_dependent_func_vars', lambda ex, st, o: V('opaque'))
    cx.attr('free_symbols', lambda ex, st, o: V('opaque'))
    m = z3.If(dep.t, mixed.t, mom(k.t)); rr = z3.If(dep.t, rest2.t, rest.t)
    cx.ensures(lambda st, r: toreal(r) == c.t * m * rr + (1 - c.t) * POW(d.t, k.t) * rr)


# ---------------------------------------------------------------- supports (C05)
def support_contract(file, cls):
    @contract(file, f'{cls}.get_support', ['C05'])
    def c(cx):
        """every value the guarded assignment can store is denoted by an element of the result: the right-hand side's support, plus the
        default -- the default may only be dropped when the condition is implied by the loop guard AND the default is the variable itself
        (whose earlier values are already accounted for by the monotone fixed point). Expressions are compared as objects (symbols)."""
        implied = cx.bool('condition_implied_by_loop_guard')
        base = cx.set('rhs_support', DRef('Expr')); d = cx.ref('default', 'Symbol'); var = cx.ref('variable', 'Symbol')
        if cls == 'PolyAssignment':
            me = cx.obj(cls, polynomials=V('seq', base.t, ek=DRef('Expr')), default=d, variable=var, condition=cx.ref('condition'))
        else:
            me = cx.obj(cls, distribution=cx.ref('distribution'), default=d, variable=var, condition=cx.ref('condition'))
            cx.call('get_support', lambda ex, st, r, a, kw: base, trusted='Distribution.get_support (contracts/distribution.py)')
        cx.param(self=me)
        cx.call('is_implied_by_loop_guard', lambda ex, st, r, a, kw: implied, trusted='Condition.is_implied_by_loop_guard (contracts/condition.py)')
        y = z3.Const('y', REF)

        def post(st, r):
            keep_rhs = z3.ForAll([y], z3.Implies(member(base.t, y), member(r.t, y)))
            return z3.And(keep_rhs, z3.Implies(z3.Not(z3.And(implied.t, d.t == var.t)), member(r.t, d.t)))
        cx.ensures(post)
    return c


support_contract(F_POLY, 'PolyAssignment')
support_contract(F_DIST, 'DistAssignment')


@contract('program/assignment/poly_assignment.py', 'PolyAssignment.__init__', ['C19', 'C08'])
def poly_assignment_init(cx):
    """x = p1 {q1} ... pk: the branch polynomials and probabilities are stored in the given order and number; each polynomial is rebuilt monomial by
    monomial with float coefficients replaced by the rationals they spell -- the value of every polynomial and probability is unchanged."""
    ISFLOAT = z3.Function('is_Float', R, B); RAT = z3.Function('float_to_rational', R, R)
    TS, mk, (acc_c, acc_m) = tuple_sort([DR, DR])
    MONS = z3.Function('monomials_with_constant', R, z3.SeqSort(TS))
    polys = cx.seq('polynomials', DR); probs = cx.seq('probabilities', DR)
    me = cx.obj('PolyAssignment', polynomials=V('opaque'), probabilities=V('opaque'))
    cx.param(self=me, variable=cx.ref('variable'), polynomials=polys, probabilities=probs)
    xq = z3.Real('xq'); sq = z3.Const('sq', z3.SeqSort(TS)); g = z3.Int('g'); j = z3.Int('j')
    cx.axiom(z3.ForAll([xq], RAT(xq) == xq))          # exact conversion: the rational IS the number the literal spells (float_to_rational, C19 bounded)
    SUMM = z3.RecFunction('sum_of_monomials', z3.SeqSort(TS), I, R)
    z3.RecAddDefinition(SUMM, [sq, g], z3.If(g <= 0, z3.RealVal(0), SUMM(sq, g - 1) + acc_c(sq[g - 1]) * acc_m(sq[g - 1])))
    cx.call('super', lambda ex, st, r, a, kw: V('opaque')); cx.call('__init__', lambda ex, st, r, a, kw: VNone())
    cx.call('sympify', lambda ex, st, r, a, kw: VR(toreal(a[0]))); cx.call('expand', lambda ex, st, r, a, kw: r)
    cx.attr('is_Float', lambda ex, st, o: VB(ISFLOAT(toreal(o))))
    cx.call('float_to_rational', lambda ex, st, r, a, kw: VR(RAT(toreal(a[0]))), trusted='float_to_rational: Rational(str(float)) (C19 bounded)')

    def get_monoms(ex, st, r, a, kw):
        e = toreal(a[0])
        st.pc.append(e == SUMM(MONS(e), z3.Length(MONS(e))))
        return V('seq', MONS(e), ek=DTuple(DR, DR))
    cx.call('get_monoms', get_monoms, trusted='get_monoms(expanded polynomial, with_constant=True): (coefficient, monomial) pairs whose products add up to the polynomial')
    cx.set_hook('empty_kinds', {'self.polynomials': DSeq(DR), 'self.probabilities': DSeq(DR)})
    cx.set_hook('obj_havoc_fields', ['polynomials', 'probabilities'])

    def fld(st, name): return st.heap[me.t][name]
    same = lambda sq_, src, upto: z3.And(z3.Length(sq_) == upto, z3.ForAll([j], z3.Implies(z3.And(0 <= j, j < upto), sq_[j] == src[j])))
    cx.invariant(0, lambda st: same(fld(st, 'polynomials').t, polys.t, st['$i0'].t))
    cx.invariant(1, lambda st: z3.And(same(fld(st, 'polynomials').t, polys.t, st['$i0'].t), toreal(st['term']) == SUMM(st['monoms'].t, st['$i1'].t),
                                      st['monoms'].t == MONS(toreal(st['expanded_poly'])), toreal(st['expanded_poly']) == polys.t[st['$i0'].t],
                                      toreal(st['expanded_poly']) == SUMM(st['monoms'].t, z3.Length(st['monoms'].t))))
    cx.invariant(2, lambda st: z3.And(same(fld(st, 'polynomials').t, polys.t, z3.Length(polys.t)), same(fld(st, 'probabilities').t, probs.t, st['$i2'].t)))
    cx.ensures(lambda st, r: z3.And(same(fld(st, 'polynomials').t, polys.t, z3.Length(polys.t)), same(fld(st, 'probabilities').t, probs.t, z3.Length(probs.t))))
