"""Sidecar contracts: sensitivity_analysis/sensitivity_analyzer.py (C10)."""
import z3
from pyvc.core import *
from pyvc.verify import contract, ind

F = 'sensitivity_analysis/sensitivity_analyzer.py'
VAR = z3.Function('assigned_variable', REF, REF)
USES = z3.Function('uses_variable', REF, REF, B)       # assignment, variable: the variable is a free symbol of the assignment
USESP = z3.Function('uses_parameter', REF, B)
ISA = z3.Function('is_assignment', REF, B)


@contract(F, 'SensivitiyAnalyzer.get_dependent_variables', ['C10'])
def dependent_variables(cx):
    """the returned set is CLOSED: it contains the variable of every assignment (initial block or loop body) that uses the parameter or uses a
    variable of the set -- so a monomial outside the set really is independent of the parameter (the skipped summands of DiffRecBuilder have
    derivative 0). Exit of the fixed-point loop only after a full pass that added nothing."""
    init = cx.seq('initial', DRef('Assignment')); body = cx.seq('loop_body', DRef('Assignment')); pvars = cx.set('variables', DRef('Symbol'))
    param = cx.ref('param'); syms = cx.set('symbols', DRef('Symbol'))
    prog = cx.obj('Program', initial=init, loop_body=body, variables=pvars, symbols=syms)
    cx.param(cls=cx.ref('cls'), program=prog, param=param)
    cx.requires(member(syms.t, param.t))
    cx.isinstance(lambda ex, st, o, c: ISA(o.t))
    cx.field('variable', lambda ex, st, o: V('ref', VAR(o.t)))
    cx.call('_assignment_uses_parameter', lambda ex, st, r, a, kw: VB(USESP(a[0].t)), trusted='_assignment_uses_parameter: param in assignment.get_free_symbols()')
    v_ = z3.Const('v_', REF)
    cx.call('_assignment_uses_dependent_variable', lambda ex, st, r, a, kw: VB(z3.Exists([v_], z3.And(member(a[1].t, v_), USES(a[0].t, v_)))),
            trusted='_assignment_uses_dependent_variable: the free symbols of the assignment intersect the given set')
    cx.set_hook('empty_kinds', {'dependent_vars': D('set', elem=DRef())})
    j = z3.Int('j')
    start = [None]

    def uses_param_closed(dep, seq, upto):
        return z3.ForAll([j], z3.Implies(z3.And(0 <= j, j < upto, ISA(seq[j]), USESP(seq[j])), member(dep, VAR(seq[j]))))

    def same(a, b): return z3.ForAll([v_], member(a, v_) == member(b, v_))
    def sup(a, b): return z3.ForAll([v_], z3.Implies(member(b, v_), member(a, v_)))

    def dep_closed(dep, seq, upto):
        return z3.ForAll([j], z3.Implies(z3.And(0 <= j, j < upto, ISA(seq[j]), z3.Exists([v_], z3.And(member(dep, v_), USES(seq[j], v_)))), member(dep, VAR(seq[j]))))
    nI, nB = z3.Length(init.t), z3.Length(body.t)
    cx.invariant(0, lambda st: uses_param_closed(st['dependent_vars'].t, init.t, st['$i0'].t))
    cx.invariant(1, lambda st: z3.And(uses_param_closed(st['dependent_vars'].t, init.t, nI), uses_param_closed(st['dependent_vars'].t, body.t, st['$i1'].t)))

    def inv_while(st):
        start[0] = st['dependent_vars'].t
        return z3.And(uses_param_closed(st['dependent_vars'].t, init.t, nI), uses_param_closed(st['dependent_vars'].t, body.t, nB))
    cx.invariant(2, inv_while)

    def pass_inv(st, seq, upto, full_init):
        dep = st['dependent_vars'].t; s0 = start[0]
        unchanged = same(dep, s0)
        parts = [uses_param_closed(dep, init.t, nI), uses_param_closed(dep, body.t, nB), sup(dep, s0), z3.Implies(unchanged, dep_closed(dep, seq, upto))]
        # the code's own record of the size at the start of the pass (whatever it is called: the first int local assigned in the while body)
        for nm in ('old_dep_size',):
            if nm in st.vars: parts.append(st[nm].t == z3.Length(s0))
        if full_init: parts.append(z3.Implies(unchanged, dep_closed(dep, init.t, nI)))
        # lemma L-card (assumed where the invariant is assumed): a superset of a set with the same number of elements is the same set
        return dict(prove=z3.And(*parts), assume=z3.Implies(z3.Length(dep) == z3.Length(s0), unchanged))
    cx.invariant(3, lambda st: pass_inv(st, init.t, st['$i3'].t, False))
    cx.invariant(4, lambda st: pass_inv(st, body.t, st['$i4'].t, True))
    cx.lemmas.append(('L-card: a superset with the same cardinality is the same set (sets as duplicate-free sequences)', None))

    def post(st, r):
        dep = r.t[0].t
        return z3.And(uses_param_closed(dep, init.t, nI), uses_param_closed(dep, body.t, nB), dep_closed(dep, init.t, nI), dep_closed(dep, body.t, nB))
    cx.ensures(post)


def _uses_common(cx):
    a = cx.ref('assignment'); fs = cx.set('free_symbols_of_assignment', DRef('Symbol'))
    cx.isinstance(lambda ex, st, o, c: z3.BoolVal(True))           # the callers pass Assignment objects (asserted by the code itself)
    cx.call('get_free_symbols', lambda ex, st, r, x, kw: fs, trusted='Assignment.get_free_symbols')
    return a, fs


@contract(F, 'SensivitiyAnalyzer._assignment_uses_parameter', ['C10'])
def uses_parameter(cx):
    """true iff the parameter is a free symbol of the assignment"""
    a, fs = _uses_common(cx); p = cx.ref('param')
    cx.param(cls=cx.ref('cls'), assignment=a, param=p)
    cx.ensures(lambda st, r: r.t == member(fs.t, p.t))


@contract(F, 'SensivitiyAnalyzer._assignment_uses_dependent_variable', ['C10'])
def uses_dependent_variable(cx):
    """true iff some variable of the given set is a free symbol of the assignment"""
    a, fs = _uses_common(cx); vs = cx.set('vars', DRef('Symbol'))
    cx.param(cls=cx.ref('cls'), assignment=a, vars=vs)
    v_ = z3.Const('v_', REF)

    def intersection(ex, st, r, x, kw):
        o = x[0]
        if r.kind != 'set' or o.kind != 'set': raise OutOfReach('intersection')
        i_ = ex.fresh(r.t.sort(), 'common'); w = ex.fresh(I, 'w')
        # the common elements, as a duplicate-free container: x in it <=> x in both; non-empty <=> it has a first element
        ex.axioms += [z3.ForAll([v_], member(i_, v_) == z3.And(member(r.t, v_), member(o.t, v_))),
                      z3.Implies(z3.Length(i_) > 0, member(i_, i_[0]))]
        return V('set', i_, ek=DRef())
    cx.call('intersection', intersection, trusted='set.intersection')
    cx.ensures(lambda st, r: r.t == z3.Exists([v_], z3.And(member(vs.t, v_), member(fs.t, v_))))
