"""Sidecar contracts: program/transformer/dist_transformer.py (C08, last sentence): location / scale extraction.

The new deterministic assignment is built as a TEXT (f-string over the printed parameters) that PolyAssignment.deterministic hands to sympify.
pyvc/template.py decides, for every parameter text, that the text reads as intended (precedence safety: finite case analysis over the operator
classes of the printed parameters, Lemma L-prec) and what its value is; the contract compares that value with the location-scale form the
property names:   Normal(mu, s2) = mu + sqrt(s2)*N(0,1);  Uniform(a, b) = a + (b - a)*U(0,1);  Laplace(mu, b) = mu + Laplace(0, b);
Exponential(num/den) = den * Exponential(num)   (the distributional identities themselves are mathematics, stated, not re-proved)."""
import z3
from pyvc.core import *
from pyvc.verify import contract
from pyvc import template as T

F = 'program/transformer/dist_transformer.py'
FS = z3.Function('free_symbols', R, z3.SeqSort(REF))


def common(cx, cls, **params):
    dist = cx.obj(cls, **params)
    var = cx.real('variable')
    assign = cx.obj('DistAssignment', variable=var, distribution=dist)
    cx.attr('free_symbols', lambda ex, st, o: V('set', FS(toreal(o)), ek=DRef()))
    nv = []

    def unique(ex, st, r, a, kw):
        v = ex.fresh(R, 'new_var'); nv.append(v); return V('real', v, atom=True)
    cx.call('get_unique_var', unique, trusted='get_unique_var(): a fresh symbol (an identifier: atomic text)')
    cx.set_hook('fstring_text', lambda ex, st, x, src: V('text', [('hole', toreal(x), 'atom' if x.get('atom') else 'any', src)]) if x.kind in ('real', 'int', 'num') else None)
    cx.call('str', lambda ex, st, r, a, kw: V('text', [('hole', toreal(a[0]), 'atom' if a[0].get('atom') else 'any', f'str({a[0].t})')]))
    for c in ('Normal', 'Uniform', 'Laplace', 'Exponential'):
        cx.call(c, (lambda c_: lambda ex, st, r, a, kw: new_obj(st, c_, params=a[0]))(c))
    cx.call('DistAssignment', lambda ex, st, r, a, kw: new_obj(st, 'DistAssignment', variable=a[0], distribution=a[1]))

    def deterministic(ex, st, r, a, kw):
        if a[1].kind != 'text': raise OutOfReach('PolyAssignment.deterministic of a non-text')
        try:
            term, safe, wit = T.value(a[1].t)
        except T.TemplateError as e_:
            ex.need(st, z3.BoolVal(False), 'text.is-an-expression@0', 'ensures', witness={'error': str(e_)})
            term = ex.fresh(R, 'unparsable')
            safe, wit = True, None
        ex.need(st, z3.BoolVal(safe), 'text.reads-as-intended-for-every-parameter@0', 'ensures', witness=wit)
        return new_obj(st, 'PolyAssignment', variable=a[0], value=VR(term))
    cx.call('PolyAssignment.deterministic', deterministic, trusted='PolyAssignment.deterministic(v, text): v = sympify(text), Python expression syntax')
    return dist, var, assign, nv


def rewritten(st, r, var, cls, params, value_of):
    """r == (DistAssignment(u, cls(params)), PolyAssignment(var, value_of(u)))"""
    if r.kind != 'tuple' or len(r.t) != 2: return z3.BoolVal(False)
    d, p = r.t
    if d.kind != 'obj' or p.kind != 'obj': return z3.BoolVal(False)
    dh, ph = st.heap[d.t], st.heap[p.t]
    if d.get('cls') != 'DistAssignment' or p.get('cls') != 'PolyAssignment': return z3.BoolVal(False)
    dist = dh['distribution']
    if dist.kind != 'obj' or dist.get('cls') != cls: return z3.BoolVal(False)
    ps = st.heap[dist.t]['params']
    if ps.kind != 'seq': return z3.BoolVal(False)
    same = z3.And(z3.Length(ps.t) == len(params), *[toreal(ps.x['ek'].wrap(ps.t[i])) == toreal(x) for i, x in enumerate(params)])
    u = toreal(dh['variable'])
    return z3.And(same, toreal(ph['variable']) == var.t, toreal(ph['value']) == value_of(u))


@contract(F, 'DistTransformer._transform_normal', ['C08'])
def transform_normal(cx):
    """x = Normal(mu, s2) with variable-dependent parameters becomes u = Normal(0, 1); x = mu + sqrt(s2)*u for EVERY printed form of mu and s2;
    constant parameters: unchanged."""
    mu, s2 = cx.real('mu'), cx.real('sigma2')
    dist, var, assign, nv = common(cx, 'Normal', mu=mu, sigma2=s2)
    cx.param(self=cx.obj('DistTransformer'), normal_assign=assign)
    cx.replay = dict(kind='normal_rewrite')
    const = z3.And(z3.Length(FS(mu.t)) == 0, z3.Length(FS(s2.t)) == 0)
    cx.ensures(lambda st, r: z3.If(const, z3.BoolVal(r.kind == 'obj' and r.t == assign.t),
                                   rewritten(st, r, var, 'Normal', [VI(0), VI(1)], lambda u: mu.t + T.SQRT(s2.t) * u)))


@contract(F, 'DistTransformer._transform_uniform', ['C08'])
def transform_uniform(cx):
    """x = Uniform(a, b) with variable-dependent parameters becomes u = Uniform(0, 1); x = a + (b - a)*u for EVERY printed form of a and b."""
    a, b = cx.real('a'), cx.real('b')
    dist, var, assign, nv = common(cx, 'Uniform', a=a, b=b)
    cx.param(self=cx.obj('DistTransformer'), uniform_assign=assign)
    cx.replay = dict(kind='uniform_rewrite')
    const = z3.And(z3.Length(FS(a.t)) == 0, z3.Length(FS(b.t)) == 0)
    cx.ensures(lambda st, r: z3.If(const, z3.BoolVal(r.kind == 'obj' and r.t == assign.t),
                                   rewritten(st, r, var, 'Uniform', [VI(0), VI(1)], lambda u: a.t + (b.t - a.t) * u)))


@contract(F, 'DistTransformer._transform_laplace', ['C08'])
def transform_laplace(cx):
    """x = Laplace(mu, b) with a variable-dependent location becomes u = Laplace(0, b); x = mu + u."""
    mu, b = cx.real('mu'), cx.real('b')
    dist, var, assign, nv = common(cx, 'Laplace', mu=mu, b=b)
    cx.param(self=cx.obj('DistTransformer'), laplace_assign=assign)
    cx.replay = dict(kind='laplace_rewrite')
    const = z3.Length(FS(mu.t)) == 0
    cx.ensures(lambda st, r: z3.If(const, z3.BoolVal(r.kind == 'obj' and r.t == assign.t),
                                   rewritten(st, r, var, 'Laplace', [VI(0), b], lambda u: mu.t + u)))


@contract(F, 'DistTransformer._transform_exponential', ['C08'])
def transform_exponential(cx):
    """x = Exponential(num/den) with constant num and variable-dependent den becomes u = Exponential(num); x = den*u; a variable-dependent
    numerator is refused."""
    lamb = cx.real('lamb'); NUM, DEN = z3.Real('numerator'), z3.Real('denominator')
    dist, var, assign, nv = common(cx, 'Exponential', lamb=lamb)
    cx.param(self=cx.obj('DistTransformer'), exp_assign=assign)
    cx.replay = dict(kind='exponential_rewrite')
    cx.call('as_numer_denom', lambda ex, st, r, a, kw: VTuple(VR(NUM), VR(DEN)), trusted='Expr.as_numer_denom(): lamb == numerator/denominator')
    const = z3.Length(FS(lamb.t)) == 0
    cx.ensures(lambda st, r: z3.If(const, z3.BoolVal(r.kind == 'obj' and r.t == assign.t),
                                   z3.And(z3.Length(FS(NUM)) == 0, rewritten(st, r, var, 'Exponential', [VR(NUM)], lambda u: DEN * u))))
    cx.raises(lambda st, e: z3.And(z3.Not(const), z3.Length(FS(NUM)) > 0))
