"""Sidecar contracts: program/transformer/*.py (C02, C01): the semantic slice of the passes that is value-like."""
import z3
from pyvc.core import *
from pyvc.verify import contract, ind

HOLDS = z3.Function('holds_before_if', REF, B)      # truth of a condition object in the state in which the if-statement is entered
_N = []


@contract('program/transformer/if_transformer.py', 'IfTransformer._', ['C02', 'C01'], name='program/transformer/if_transformer.py::IfTransformer.transform[IfStatem]')
def if_transform(cx):
    """Flattening of if / elif / else: the condition added to every assignment of branch i means, in the state in which the
    if-statement is entered, 'no earlier branch condition holds and condition i holds' (first-matching-branch semantics); for a
    mutually exclusive if-statement just condition i. (Renaming of reassigned condition variables to their saved old values keeps that
    meaning; the saved copies themselves are covered by the bounded C02 check.)"""
    conds = cx.seq('conditions', DRef('Condition')); brs = cx.seq('branches', DSeq(DRef('Assignment'))); els = cx.seq('else_branch', DRef('Assignment'))
    mutex = cx.bool('mutually_exclusive')
    ifs = cx.obj('IfStatem', conditions=conds, branches=brs, else_branch=els, mutually_exclusive=mutex)
    cx.param(self=cx.obj('IfTransformer'), ifstmt=ifs)
    cx.requires(z3.Length(conds.t) == z3.Length(brs.t))

    def fresh_cond(ex, h):
        r = ex.fresh(REF, 'cond'); ex.axioms.append(HOLDS(r) == h); return V('ref', r, cls='Condition')
    cx.call('TrueCond', lambda ex, st, r, a, kw: fresh_cond(ex, z3.BoolVal(True)))
    cx.call('And', lambda ex, st, r, a, kw: fresh_cond(ex, z3.And(HOLDS(a[0].t), HOLDS(a[1].t))))
    cx.call('Not', lambda ex, st, r, a, kw: fresh_cond(ex, z3.Not(HOLDS(a[0].t))))
    cx.call('copy', lambda ex, st, r, a, kw: fresh_cond(ex, HOLDS(r.t)), trusted='Condition.copy(): equivalent condition')
    cx.call('simplify', lambda ex, st, r, a, kw: fresh_cond(ex, HOLDS(r.t)), trusted='Condition.simplify(): equivalent condition (And/Or/Not.simplify)')
    cx.call('subs', lambda ex, st, r, a, kw: VNone(), trusted='renaming reassigned condition variables to their _old copies keeps the truth value in the entry state (C02 bounded)')
    def all_symbols(ex, st, r, a, kw):
        # the variables that need a saved '_old' copy are those of ALL branch conditions: the effective condition of branch i contains the negation
        # of every earlier condition, so a variable of an earlier condition assigned in a later branch must be frozen as well
        arg = a[0]
        cur = st['conditions']           # all branch conditions (with the 'true' of an else branch appended)
        ex.need(st, z3.BoolVal(True) if (arg.kind == 'seq' and arg.t.eq(cur.t)) else ((arg.t == cur.t) if arg.kind == 'seq' else z3.BoolVal(False)), 'old-copies.cover-all-branch-conditions@0', 'ensures')
        return V('set', z3.Const('condition_symbols', z3.SeqSort(REF)), ek=DRef())
    cx.call('_get_all_symbols', all_symbols)
    cx.call('get_unique_var', lambda ex, st, r, a, kw: V('str', ex.fresh(S, 'oldname')))
    cx.call('PolyAssignment.deterministic', lambda ex, st, r, a, kw: V('ref', ex.fresh(REF, 'rename_assign')))
    cx.field('variable', lambda ex, st, o: V('ref', z3.Function('assign_variable', REF, REF)(o.t)))
    cx.call('simplify_condition', lambda ex, st, r, a, kw: VNone())
    cx.set_hook('empty_kinds', {'rename_subs': V('map', (z3.K(REF, z3.StringVal('')), z3.K(REF, z3.BoolVal(False))), kk=DRef(), vk=DS, size=z3.IntVal(0)),
                                'rename_assigns': DSeq(DRef())})
    cx.set_hook('map_iteration', lambda ex, st, m, what: (ex.fresh(I, 'nitems') * 0 + z3.If(ex.fresh(I, 'n') > 0, 1, 0), lambda i: VTuple(V('ref', ex.fresh(REF, 'k')), V('str', ex.fresh(S, 'v')))))

    def np_of(cseq):
        f = z3.RecFunction(f'none_before{len(_N)}', I, B); _N.append(1); j = z3.Int('jn')
        z3.RecAddDefinition(f, [j], z3.If(j <= 0, z3.BoolVal(True), z3.And(f(j - 1), z3.Not(HOLDS(cseq[j - 1])))))
        return f
    cache = {}

    def NP(st):
        c = st['conditions'].t
        if c.get_id() not in cache: cache[c.get_id()] = np_of(c)
        return cache[c.get_id()]

    def add_to_condition(ex, st, r, a, kw):
        i = st['i'].t; c = st['conditions'].t
        want = z3.If(mutex.t, HOLDS(c[i]), z3.And(NP(st)(i), HOLDS(c[i])))
        ex.need(st, HOLDS(a[0].t) == want, 'add_to_condition.meaning@0', 'ensures')
        return VNone()
    cx.call('add_to_condition', add_to_condition)
    cx.invariant(0, lambda st: HOLDS(st['not_previous'].t) == NP(st)(st['$i0'].t))
    cx.invariant(1, lambda st: HOLDS(st['not_previous'].t) == NP(st)(st['i'].t))
    cx.invariant(2, lambda st: z3.And(HOLDS(st['not_previous'].t) == NP(st)(st['i'].t),
                                      HOLDS(st['extra_condition'].t) == z3.If(mutex.t, HOLDS(st['conditions'].t[st['i'].t]), z3.And(NP(st)(st['i'].t), HOLDS(st['conditions'].t[st['i'].t])))))
    cx.invariant(3, lambda st: z3.BoolVal(True))
    cx.ensures(lambda st, r: z3.BoolVal(True))


@contract('program/transformer/conditions_to_arithm.py', 'ConditionsToArithm._conditions_to_arithm', ['C17', 'C02'])
def conditions_to_arithm(cx):
    """x = p | C : d   becomes   x = [C]*p + (1 - [C])*d   with condition true: every new polynomial of a guarded polynomial assignment is that
    convex combination of the old polynomial and the DEFAULT of the assignment; a conditioned draw becomes a fresh unconditioned draw u and
    x = [C]*u + (1 - [C])*d."""
    ARITH = z3.Function('cond_indicator', REF, R); COND = z3.Function('assign_condition', REF, REF); DEF = z3.Function('assign_default_value', REF, R)
    VARV = z3.Function('assign_variable_value', REF, R); POLYS = z3.Function('assign_polynomials', REF, z3.SeqSort(R))
    ISPOLY = z3.Function('is_PolyAssignment', REF, B); ISDIST = z3.Function('is_DistAssignment', REF, B); TRUE = z3.Function('is_true_cond', REF, B)
    assigns = cx.seq('assignments', DRef('Assignment'))
    cx.param(self=cx.obj('ConditionsToArithm', program=cx.ref('program'), needs_info_update=cx.bool('niu')), assignments=assigns)
    cx.field('condition', lambda ex, st, o: V('ref', COND(o.t)))
    cx.field('default', lambda ex, st, o: VR(DEF(o.t)))
    cx.field('variable', lambda ex, st, o: VR(VARV(o.t)))
    cx.field('polynomials', lambda ex, st, o: V('seq', POLYS(o.t), ek=DR))
    cx.field('distribution', lambda ex, st, o: V('opaque'))
    cx.call('to_arithm', lambda ex, st, r, a, kw: VR(ARITH(r.t)), trusted='Condition.to_arithm = [holds] (contracts/condition.py)')
    cx.isinstance(lambda ex, st, o, cls: ISPOLY(o.t) if cls == 'PolyAssignment' else ISDIST(o.t))

    def true_cond(ex, st, r, a, kw):
        t = ex.fresh(REF, 'truecond'); ex.axioms.append(TRUE(t)); return V('ref', t)
    cx.call('TrueCond', true_cond)
    cx.call('get_unique_var', lambda ex, st, r, a, kw: VR(ex.fresh(R, 'fresh_draw_value')))
    cx.call('DistAssignment', lambda ex, st, r, a, kw: V('ref', ex.fresh(REF, 'dist_assign'), newvar=a[0]))
    cx.call('get_assign_type', lambda ex, st, r, a, kw: V('opaque'))
    cx.call('add_type', lambda ex, st, r, a, kw: VNone())

    def deterministic(ex, st, r, a, kw):
        # PolyAssignment.deterministic(assign.variable, poly): the polynomial must be [C]*u + (1-[C])*default for the CURRENT assignment
        cur = st['assign'].t; c = toreal(st['arithm_cond'])
        ex.need(st, z3.Exists([z3.Real('u')], toreal(a[1]) == c * z3.Real('u') + (1 - c) * DEF(cur)), 'dist_rewrite.formula@0', 'ensures')
        return V('ref', ex.fresh(REF, 'poly_assign'))
    cx.call('PolyAssignment.deterministic', deterministic)

    def ref_store(ex, st, o, attr, v):
        c = toreal(st['arithm_cond'])
        if attr == 'polynomials':
            j = z3.Int('jp'); old = POLYS(o.t)
            ex.need(st, z3.And(z3.Length(v.t) == z3.Length(old), z3.ForAll([j], z3.Implies(z3.And(0 <= j, j < z3.Length(old)), v.t[j] == c * old[j] + (1 - c) * DEF(o.t)))),
                    'polynomials.formula@0', 'ensures')
        elif attr == 'condition':
            ex.need(st, TRUE(v.t), 'condition.is_true@0', 'ensures')
    cx.set_hook('ref_store', ref_store)
    cx.set_hook('empty_kinds', {'new_assignments': DSeq(DRef())})
    cx.invariant(0, lambda st: z3.BoolVal(True))
    cx.ensures(lambda st, r: z3.BoolVal(True))


@contract('program/transformer/loop_guard_transformer.py', 'LoopGuardTransformer.execute', ['C09', 'C02'])
def loop_guard_execute(cx):
    """while G: body  ==>  while true: if (G and collapsed-if conditions): body'.  ONLY the (simplified) source guard G carries the loop-guard
    mark -- the condition that decides termination -- never the conjunction with collapsed if-conditions (repaired defect D6); with the
    trivial-guard option the guard is replaced by true and nothing else changes."""
    trivial = cx.bool('trivial_guard'); guard = cx.ref('loop_guard'); body = cx.ref('loop_body')
    prog = cx.obj('Program', loop_guard=guard, loop_body=body)
    cx.param(self=cx.obj('LoopGuardTransformer', trivial_guard=trivial), program=prog)
    ISTRUE = z3.Function('is_TrueCond', REF, B); SIMP = z3.Function('simplified', REF, REF); AND = z3.Function('and_of', REF, REF, REF)
    stm, cond = cx.ref('collapsed_statements'), cx.ref('collapsed_condition')
    cx.call('_collapse_first_level_ifs', lambda ex, st, r, a, kw: VTuple(stm, cond), trusted='_collapse_first_level_ifs: statements and conjunction of the collapsed single top-level ifs')
    cx.call('simplify', lambda ex, st, r, a, kw: V('ref', SIMP(r.t)), trusted='Condition.simplify(): equivalent condition')
    cx.call('And', lambda ex, st, r, a, kw: V('ref', AND(a[0].t, a[1].t)))
    cx.call('get_conjuncts', lambda ex, st, r, a, kw: V('seq', ex.fresh(z3.SeqSort(REF), 'conjuncts'), ek=DRef('Condition')), trusted='Condition.get_conjuncts(): the top-level conjuncts (nothing else is assumed)')

    def true_cond(ex, st, r, a, kw):
        t = ex.fresh(REF, 'truecond'); ex.axioms.append(ISTRUE(t)); return V('ref', t)
    cx.call('TrueCond', true_cond)
    cx.isinstance(lambda ex, st, o, c: ISTRUE(o.t))
    cx.call('IfStatem', lambda ex, st, r, a, kw: V('ref', z3.Function('if_statem', REF, REF, REF)(a[0].t[0] if a[0].kind == 'seq' else a[0].t, a[1].t[0] if a[1].kind == 'seq' else a[1].t)))
    cx.st.vars['$marked'] = V('none')

    def ref_store(ex, st, o, attr, v):
        if attr == 'is_loop_guard':
            ex.need(st, z3.And(truthy(v), o.t == SIMP(guard.t)), 'guard_mark.on_source_guard_only@0', 'ensures')
            st.vars['$marked'] = o
    cx.set_hook('ref_store', ref_store)

    def post(st, r):
        lg = st.field(prog, 'loop_guard'); lb = st.field(prog, 'loop_body')
        full = SIMP(AND(SIMP(guard.t), cond.t))
        wrapped = z3.Function('if_statem', REF, REF, REF)(full, stm.t)
        non_trivial = z3.And(ISTRUE(lg.t), z3.BoolVal(st['$marked'].kind == 'ref'),
                             z3.If(ISTRUE(full), lb.t == body.t if lb.kind == 'ref' else z3.BoolVal(False),
                                   (lb.t[0] == wrapped) if lb.kind == 'seq' else z3.BoolVal(False)))
        triv = z3.And(ISTRUE(lg.t), z3.BoolVal(lb.kind == 'ref') if lb.kind != 'ref' else lb.t == body.t)
        return z3.If(trivial.t, triv, non_trivial)
    cx.ensures(post)


@contract('program/transformer/conditions_reducer.py', 'ConditionsReducer._reduce_conditions', ['C02'])
def reduce_conditions(cx):
    """alias reuse is invalidated on reassignment: whenever an alias r (for the atom p1 cop p2) is still in the store, NO variable occurring in p1
    or p2 has been assigned since the alias was created -- so r still has the value p1 - p2 when the alias is reused for an equal atom."""
    USES = z3.Function('atom_uses_variable', REF, REF, B); UEXP = z3.Function('expr_uses_variable', REF, REF, B)
    P1 = z3.Function('atom_poly1', REF, REF); P2 = z3.Function('atom_poly2', REF, REF)
    VARA = z3.Function('assigned_variable', REF, REF); CONDA = z3.Function('assignment_condition', REF, REF); CREATED = z3.Function('alias_created_at', REF, I)
    assigns = cx.seq('assignments', DRef('Assignment'))
    cx.param(self=cx.obj('ConditionsReducer', program=cx.ref('program')), assignments=assigns)
    kq = z3.Const('kq', REF); vq = z3.Const('vq', REF); j = z3.Int('j')
    cx.axiom(z3.ForAll([kq, vq], USES(kq, vq) == z3.Or(UEXP(P1(kq), vq), UEXP(P2(kq), vq))))     # the free symbols of an atom are those of its two polynomials
    cx.field('variable', lambda ex, st, o: V('ref', VARA(o.t)))
    cx.field('condition', lambda ex, st, o: V('ref', CONDA(o.t)))
    cx.field('poly1', lambda ex, st, o: V('ref', P1(o.t))); cx.field('poly2', lambda ex, st, o: V('ref', P2(o.t)))
    cx.field('free_symbols', lambda ex, st, o: V('fsexpr', o.t))
    cx.call('get_free_symbols', lambda ex, st, r, a, kw: V('fsatom', r.t), trusted='Atom.get_free_symbols: free symbols of poly1 and poly2')
    cx.set_hook('in_hook', lambda ex, st, a, b: USES(b.t, a.t) if b.kind == 'fsatom' else (UEXP(b.t, a.t) if b.kind == 'fsexpr' else None))
    empty_store = V('map', (z3.K(REF, z3.Const('noalias', REF)), z3.K(REF, z3.BoolVal(False))), kk=DRef(), vk=DRef(), size=None)
    cx.set_hook('empty_kinds', {'store': empty_store, 'new_assignments': DSeq(DRef())})
    n_ = [0]

    def reduce(ex, st, r, a, kw):
        # Condition.reduce(store) may add aliases for atoms of this condition: new keys are created NOW (at the current iteration index)
        store = st.vars['store']; arr, dom = store.t
        i = st['$i0'].t
        NEW = z3.Function(f'new_alias_keys_{n_[0]}', REF, B); n_[0] += 1
        ex.axioms.append(z3.ForAll([kq], z3.Implies(NEW(kq), CREATED(kq) == i)))
        st.vars['store'] = V('map', (ex.fresh(arr.sort(), 'store_arr'), z3.Lambda([kq], z3.Or(z3.Select(dom, kq), NEW(kq)))), kk=DRef(), vk=DRef(), size=None)
        return V('seq', ex.fresh(z3.SeqSort(tuple_sort([DRef(), DRef()])[0]), 'aliases'), ek=DTuple(DRef(), DRef()))
    cx.call('reduce', reduce, trusted='Condition.reduce(store): Atom.reduce contract (contracts/condition.py)')
    cx.call('simplify', lambda ex, st, r, a, kw: r)
    cx.call('PolyAssignment.deterministic', lambda ex, st, r, a, kw: V('ref', ex.fresh(REF, 'alias_assign')))
    cx.set_hook('loop_ghosts', ['store'])

    def valid(st, upto, strict):
        arr, dom = st['store'].t
        return z3.ForAll([kq], z3.Implies(z3.Select(dom, kq), z3.And(CREATED(kq) < upto if strict else CREATED(kq) <= upto,
                                                                    z3.ForAll([j], z3.Implies(z3.And(CREATED(kq) <= j, j < upto, 0 <= j), z3.Not(USES(kq, VARA(assigns.t[j]))))))))
    cx.invariant(0, lambda st: valid(st, st['$i0'].t, True))
    cx.invariant(1, lambda st: valid(st, st['$i0'].t, False))
    cx.ensures(lambda st, r: z3.BoolVal(True))


def _counting(cx, body):
    """ghost: REM(v, i) = number of assignments to v among body[i:], by its defining equations (a total function on i >= 0)"""
    VAR0 = z3.Function('assigned_variable_before', REF, REF)      # the variable an assignment object assigns when the pass starts
    REM = z3.Function('assignments_to_from', REF, I, I)
    v, i = z3.Const('v', REF), z3.Int('i')
    n = z3.Length(body.t)
    cx.axiom(z3.ForAll([v, i], z3.Implies(i >= n, REM(v, i) == 0)),
             z3.ForAll([v, i], z3.Implies(z3.And(0 <= i, i < n), REM(v, i) == z3.If(VAR0(body.t[i]) == v, 1, 0) + REM(v, i + 1))),
             z3.ForAll([v, i], REM(v, i) >= 0))
    return VAR0, REM


@contract('program/transformer/multi_assign_transformer.py', 'MultiAssignTransformer._get_count_assign_per_var', ['C02'])
def count_assign_per_var(cx):
    """counts[v] = number of assignments to v in the loop body, and exactly the assigned variables are keys"""
    body = cx.seq('loop_body', DRef('Assignment'))
    cx.param(self=cx.obj('MultiAssignTransformer'), program=cx.obj('Program', loop_body=body))
    VAR0, REM = _counting(cx, body)
    cx.field('variable', lambda ex, st, o: V('ref', VAR0(o.t)))
    cx.set_hook('empty_kinds', {'counts': V('map', (z3.K(REF, z3.IntVal(0)), z3.K(REF, z3.BoolVal(False))), kk=DRef(), vk=DI, size=None)})
    v = z3.Const('v', REF)

    def inv(st, i):       # counts[v] + (assignments to v still to come) = all assignments to v
        arr, dom = st['counts'].t
        return z3.ForAll([v], z3.And(z3.If(z3.Select(dom, v), z3.Select(arr, v), 0) + REM(v, i) == REM(v, 0),
                                     z3.Select(dom, v) == (REM(v, 0) - REM(v, i) >= 1)))
    cx.invariant(0, lambda st: inv(st, st['$i0'].t))

    def post(st, r):
        arr, dom = r.t
        return z3.ForAll([v], z3.And(z3.Select(dom, v) == (REM(v, 0) >= 1), z3.Implies(z3.Select(dom, v), z3.Select(arr, v) == REM(v, 0))))
    cx.ensures(post)


@contract('program/transformer/multi_assign_transformer.py', 'MultiAssignTransformer.execute', ['C02', 'C01'])
def multi_assign_execute(cx):
    """single-assignment renaming: the k-th of m > k assignments to v writes the alias _v<k> instead of v, the LAST one writes v itself; every
    assignment is first rewritten (reads and default) with the substitution that maps exactly the variables that have been assigned already
    AND will be assigned again to their latest alias -- so every read sees the current value and v ends with its final value."""
    body = cx.seq('loop_body', DRef('Assignment'))
    prog = cx.obj('Program', loop_body=body)
    cx.param(self=cx.obj('MultiAssignTransformer'), program=prog)
    VAR0, REM = _counting(cx, body)
    ALIAS = z3.Function('alias', REF, I, REF)
    v, j = z3.Const('v', REF), z3.Int('j'); n = z3.Length(body.t)
    cx.requires(z3.ForAll([z3.Int('p'), z3.Int('q')], z3.Implies(z3.And(0 <= z3.Int('p'), z3.Int('p') < z3.Int('q'), z3.Int('q') < n), body.t[z3.Int('p')] != body.t[z3.Int('q')])))   # A-alias: distinct assignment objects
    T = lambda x: REM(x, 0)

    def counts(ex, st, r, a, kw):
        arr = ex.fresh(z3.ArraySort(REF, I), 'per_var'); dom = ex.fresh(z3.ArraySort(REF, B), 'per_var_dom')
        st.pc.append(z3.ForAll([v], z3.And(z3.Select(dom, v) == (T(v) >= 1), z3.Implies(z3.Select(dom, v), z3.Select(arr, v) == T(v)))))
        return V('map', (arr, dom), kk=DRef(), vk=DI, size=None)
    cx.call('_get_count_assign_per_var', counts, trusted='_get_count_assign_per_var: contract above')
    cx.call('copy', lambda ex, st, r, a, kw: r)
    cx.field('variable', lambda ex, st, o: V('ref', VAR0(o.t)))
    cx.set_hook('empty_kinds', {'substitutions': V('map', (z3.K(REF, z3.Const('nosub', REF)), z3.K(REF, z3.BoolVal(False))), kk=DRef(), vk=DRef(), size=None)})
    NEWVAR = 'new_variable_of'       # ghost: the variable written by each assignment after the pass (array keyed by assignment object)
    cx.st.vars['$newvar'] = V('opaque', z3.Const('newvar0', z3.ArraySort(REF, REF)))
    cx.st.vars['$written'] = V('opaque', z3.K(REF, z3.BoolVal(False)))
    cx.set_hook('loop_ghosts', ['$newvar', '$written'])

    def expected_map(arr, dom, i):
        """the substitution in force before statement i"""
        return z3.ForAll([v], z3.And(z3.Select(dom, v) == z3.And(T(v) - REM(v, i) >= 1, REM(v, i) >= 1),
                                     z3.Implies(z3.Select(dom, v), z3.Select(arr, v) == ALIAS(v, T(v) - REM(v, i)))))

    def subs(ex, st, r, a, kw):
        m = a[0]
        if m.kind != 'map': raise OutOfReach('subs argument')
        arr, dom = m.t
        ex.need(st, expected_map(arr, dom, st['$i0'].t), 'reads-see-current-holders@0', 'ensures')
        return VNone()
    cx.call('subs', subs, trusted='Assignment.subs(map): simultaneous renaming of the reads and the default of the assignment')

    def fstr(ex, st, x, src):
        if x.kind == 'ref': return V('text', [('hole', x.t, 'ref', src)])
        if x.kind == 'int': return V('text', [('hole', x.t, 'int', src)])
        return None
    cx.set_hook('fstring_text', fstr)

    def symbols(ex, st, r, a, kw):
        t = a[0]
        if t.kind != 'text' or len(t.t) != 3 or t.t[0] != ('lit', '_') or t.t[1][2] != 'ref' or t.t[2][2] != 'int': raise OutOfReach('alias name of another shape')
        return V('ref', ALIAS(t.t[1][1], t.t[2][1]))
    cx.call('symbols', symbols, trusted="symbols('_<v><k>'): the alias symbol of (v, k); distinct from every program variable (names starting with '_' are reserved, D26) and injective in (v, k) up to digit concatenation")

    def ref_store(ex, st, o, attr, val):
        if attr != 'variable': raise OutOfReach('store to ' + attr)
        st.vars['$newvar'] = V('opaque', z3.Store(st['$newvar'].t, o.t, val.t))
        st.vars['$written'] = V('opaque', z3.Store(st['$written'].t, o.t, z3.BoolVal(True)))
    cx.set_hook('ref_store', ref_store)

    def pop(ex, st, r, a, kw):
        if r.kind != 'map': raise OutOfReach('pop')
        arr, dom = r.t
        st.vars['substitutions'] = V('map', (arr, z3.Store(dom, a[0].t, z3.BoolVal(False))), kk=DRef(), vk=DRef(), size=None)
        return V('opaque')
    cx.call('pop', pop)

    def target_ok(st, upto):
        nv, wr = st['$newvar'].t, st['$written'].t
        o = lambda jj: body.t[jj]
        return z3.ForAll([j], z3.Implies(z3.And(0 <= j, j < upto),
                                         z3.If(REM(VAR0(o(j)), j) > 1,
                                               z3.And(z3.Select(wr, o(j)), z3.Select(nv, o(j)) == ALIAS(VAR0(o(j)), T(VAR0(o(j))) - REM(VAR0(o(j)), j) + 1)),
                                               z3.Not(z3.Select(wr, o(j))))))

    def inv(st):
        i = st['$i0'].t
        carr, cdom = st['assigns_count'].t; sarr, sdom = st['substitutions'].t
        wr = st['$written'].t
        return z3.And(z3.ForAll([v], z3.Implies(REM(v, i) >= 1, z3.And(z3.Select(cdom, v), z3.Select(carr, v) == REM(v, i)))),
                      z3.ForAll([v], T(v) - REM(v, i) >= 0), 0 <= i,
                      expected_map(sarr, sdom, i), target_ok(st, i),
                      z3.ForAll([j], z3.Implies(z3.And(i <= j, j < n), z3.Not(z3.Select(wr, body.t[j])))))
    cx.invariant(0, inv)
    cx.ensures(lambda st, r: z3.And(target_ok(st, n), r.t == prog.t if r.kind == 'obj' else z3.BoolVal(False)))


@contract('program/transformer/constants_transformer.py', 'ConstantsTransformer.execute', ['C02', 'C01'])
def constants_execute(cx):
    """inlining of constants: a variable is replaced by a single value everywhere only if it is not assigned in the loop body, is assigned ONCE in
    the initial block, unconditionally, by one polynomial whose value (after inlining the constants known at that point) mentions NO program
    variable (D28); every initial assignment that is kept is rewritten with the constants known at ITS point of the block, and the initial
    block is not rewritten again with the final map (D28b); guard and loop body are rewritten with the final map; every other constant c gets
    c = c at the end of the loop body; inlined variables leave program.variables."""
    init = cx.seq('initial', DRef('Assignment')); body = cx.seq('loop_body', DRef('Assignment')); pvars = cx.set('variables', DRef('Symbol'))
    guard = cx.ref('loop_guard')
    prog = cx.obj('Program', initial=init, loop_body=body, variables=pvars, loop_guard=guard)
    cx.param(self=cx.obj('ConstantsTransformer'), program=prog)
    VARA = z3.Function('assigned_variable', REF, REF)
    POLY0 = z3.Function('first_polynomial', REF, REF); MENT = z3.Function('mentions_program_variable', REF, B)
    INBODY = z3.Function('assigned_in_loop_body', REF, B); COUNT = z3.Function('assignments_in_initial_block', REF, I)
    ISPOLY = z3.Function('is_PolyAssignment', REF, B); TRUEC = z3.Function('is_TrueCond', REF, B); COND = z3.Function('condition_of', REF, REF)
    NPOLY = z3.Function('number_of_polynomials', REF, I)
    cx.field('variable', lambda ex, st, o: V('ref', VARA(o.t))); cx.field('condition', lambda ex, st, o: V('ref', COND(o.t)))
    cx.field('polynomials', lambda ex, st, o: V('polys', o.t))
    cx.field('free_symbols', lambda ex, st, o: V('fs', o.t))
    cx.isinstance(lambda ex, st, o, cls: ISPOLY(o.t) if cls == 'PolyAssignment' else TRUEC(o.t))

    def comp(ex, st, c):
        src = c.x['src']
        if src.kind == 'seq' and src.t.eq(body.t): return V('bodyvars', None)       # {a.variable for a in program.loop_body}
        if src.kind == 'seq' and src.t.eq(init.t): return V('initvars', None)       # [a.variable for a in program.initial]
        return None
    cx.set_hook('comprehension', comp); cx.set_hook('materialise', ('loop_body_vars', 'initial_vars'))
    cx.set_hook('in_hook', lambda ex, st, a, b: INBODY(a.t) if b.kind == 'bodyvars' else None)
    cx.call('count', lambda ex, st, r, a, kw: VI(COUNT(a[0].t)) if r.kind == 'initvars' else NotImplemented)
    cx.set_hook('index_hook', lambda ex, st, o, i: V('ref', POLY0(o.t)) if o.kind == 'polys' else None)
    cx.call('len', lambda ex, st, r, a, kw: VI(NPOLY(a[0].t)) if a[0].kind == 'polys' else NotImplemented)
    cx.set_hook('binop', lambda ex, st, op, a, b: VB(MENT(a.t)) if (op == 'BitAnd' and a.kind == 'fs') else None)       # value.free_symbols & program.variables
    # the constant map: domain + values; the ghost $version identifies the map in force (it changes with every store)
    empty_map = V('map', (z3.K(REF, z3.Const('novalue', REF)), z3.K(REF, z3.BoolVal(False))), kk=DRef(), vk=DRef(), size=None)
    cx.set_hook('empty_kinds', {'fixed_constants': empty_map, 'other_constants': D('set', elem=DRef()), 'new_initial_assignments': DSeq(DRef())})
    SUBSV = z3.Function('value_after_inlining', REF, z3.ArraySort(REF, REF), z3.ArraySort(REF, B), REF)
    cx.st.vars['$rewritten'] = V('opaque', z3.K(REF, z3.BoolVal(False)))        # assignment objects rewritten with the map in force at their point
    cx.st.vars['$guard_done'] = VB(False); cx.st.vars['$body_done'] = VB(False); cx.st.vars['$initial_again'] = VB(False)
    cx.set_hook('loop_ghosts', ['$rewritten'])

    def subs(ex, st, r, a, kw):
        m = a[0]
        if m.kind != 'map' or r.kind != 'ref': raise OutOfReach('subs')
        arr, dom = m.t
        if r.t.eq(guard.t):
            st.vars['$guard_done'] = VB(True); return VNone()
        st.vars['$rewritten'] = V('opaque', z3.Store(st['$rewritten'].t, r.t, z3.BoolVal(True)))
        return V('ref', SUBSV(r.t, arr, dom))
    cx.call('subs', subs, trusted='Assignment/Condition/Expr.subs(map): simultaneous replacement of the mapped symbols')

    def store(ex, st, o, k, v):
        if not (o.kind == 'map' and k.kind == 'ref'): return False
        # fixed_constants[var] = value
        ex.need(st, z3.And(z3.Not(MENT(v.t)), z3.Not(INBODY(k.t)), COUNT(k.t) == 1), 'inlined-constant.is-a-fixed-value@0', 'ensures')
        arr, dom = o.t
        st.vars['fixed_constants'] = V('map', (z3.Store(arr, k.t, v.t), z3.Store(dom, k.t, z3.BoolVal(True))), kk=DRef(), vk=DRef(), size=None)
        return True
    cx.set_hook('subscript_store_hook', store)

    def append(ex, st, r, a, kw):
        nia = st.vars.get('new_initial_assignments')
        if r.kind == 'seq' and nia is not None and nia.kind == 'seq' and (r.get('empty') and nia.get('empty') or (not r.get('empty') and not nia.get('empty') and r.t.eq(nia.t))):
            ex.need(st, z3.Select(st['$rewritten'].t, a[0].t), 'kept-initial-assignment.rewritten-at-its-point@0', 'ensures')
        return NotImplemented
    cx.call('append', append)

    def subs_in_assigns(ex, st, r, a, kw):
        lst = a[0]
        cur_init = st.heap[prog.t]['initial']
        if lst.kind == 'seq' and cur_init.kind == 'seq' and lst.t.eq(cur_init.t): st.vars['$initial_again'] = VB(True)
        elif lst.kind == 'seq' and lst.t.eq(body.t): st.vars['$body_done'] = VB(True)
        else: raise OutOfReach('_subs_in_assigns on another list')
        return VNone()
    cx.call('_subs_in_assigns', subs_in_assigns, trusted='_subs_in_assigns(list, map): every assignment of the list is rewritten with the map')
    cx.call('remove', lambda ex, st, r, a, kw: VNone())
    cx.call('PolyAssignment.deterministic', lambda ex, st, r, a, kw: V('ref', ex.fresh(REF, 'keep_constant')))
    cx.set_hook('map_iteration', lambda ex, st, m, what: (ex.fresh(I, 'n_fixed'), lambda i: VTuple(V('ref', ex.fresh(REF, 'c')), V('ref', ex.fresh(REF, 'v')))))
    cx.invariant(0, lambda st: z3.BoolVal(True)); cx.invariant(1, lambda st: z3.BoolVal(True)); cx.invariant(2, lambda st: z3.BoolVal(True))
    cx.replay = dict(kind='constants_inlining')
    cx.ensures(lambda st, r: z3.And(st['$guard_done'].t, st['$body_done'].t, z3.Not(st['$initial_again'].t)))
