"""Sidecar contracts: recurrences/rec_builder.py (C03 / C01): control skeleton of the weakest pre-expectation computation.

Ghost functions (values of CAS expressions under one fixed valuation, see A-cas):
  GM(assign, k, c, rest)   result of assign.get_moment(k, ctx, c, rest)      (contract verified in contracts/assignment.py)
  NEC(assign, r)           _assign_replace_is_necessary(assign, r)           (verified below)
  REP(r, assign)           _replace_assign(r, assign) after expand           (verified below, non-trigger branch)
  RED(r)                   _reduce_powers(r)                                 (value-preserving on typed states: Finite.reduce_power contract)
"""
import z3
from pyvc.core import *
from pyvc.verify import contract, ind

F = 'recurrences/rec_builder.py'
IDX = z3.Function('var_to_index', REF, I)


@contract(F, 'RecBuilder._get_last_assign_index', ['C03', 'C01'])
def last_assign_index(cx):
    vs = cx.set('variables', DRef('Symbol'))
    prog = cx.obj('Program', var_to_index=V('map', (z3.Lambda([z3.Const('v', REF)], IDX(z3.Const('v', REF))), z3.K(REF, z3.BoolVal(True))), kk=DRef(), vk=DI))
    cx.param(self=cx.obj('RecBuilder', program=prog), variables=vs)
    j = z3.Int('j')
    cx.requires(z3.ForAll([j], z3.Implies(z3.And(0 <= j, j < z3.Length(vs.t)), IDX(vs.t[j]) >= 0)))
    cx.invariant(0, lambda st: z3.And(st['max_index'].t >= -1,
                                      z3.ForAll([j], z3.Implies(z3.And(0 <= j, j < st['$i0'].t), IDX(vs.t[j]) <= st['max_index'].t)),
                                      z3.Or(st['max_index'].t == -1, z3.Exists([j], z3.And(0 <= j, j < st['$i0'].t, IDX(vs.t[j]) == st['max_index'].t)))))
    # the maximum assignment index of the given variables (-1 for none): every variable's assignment is at or before it, and it is attained
    cx.ensures(lambda st, r: z3.And(z3.ForAll([j], z3.Implies(z3.And(0 <= j, j < z3.Length(vs.t)), IDX(vs.t[j]) <= r.t)),
                                    z3.Or(r.t == -1, z3.Exists([j], z3.And(0 <= j, j < z3.Length(vs.t), IDX(vs.t[j]) == r.t)))))


@contract(F, 'RecBuilder._replace_assign', ['C03', 'C01'])
def replace_assign(cx):
    """non-trigger branch: wp(assign, poly) = rest_without_var + sum over the terms var**p * rest of assign.get_moment(p, ctx, [cond], rest)"""
    GM = z3.Function('get_moment', I, R, R, R)
    terms = cx.seq('terms_with_var', DTuple(DN, DR)); restw = cx.real('rest_without_var'); c = cx.real('cond_indicator')
    trig = cx.bool('var_has_triggers_in_expr')
    assign = cx.ref('assign', 'Assignment'); poly = cx.real('poly')
    ctx = cx.obj('RecBuilderContext')
    cx.param(self=cx.obj('RecBuilder', program=cx.ref('program'), context=ctx), poly=poly, assign=assign)
    cx.field('condition', lambda ex, st, o: V('ref', z3.Const('assign.condition', REF)))
    cx.field('variable', lambda ex, st, o: V('ref', z3.Const('assign.variable', REF)))
    cx.call('to_arithm', lambda ex, st, r, a, kw: c, trusted='Condition.to_arithm = [holds] (contracts/condition.py)')
    cx.call('var_has_triggers_in_expr', lambda ex, st, r, a, kw: trig)
    cx.call('get_terms_with_var', lambda ex, st, r, a, kw: VTuple(terms, restw),
            trusted='get_terms_with_var(poly, var): poly == sum var**p * rest + rest_without_var with var not free in rest (bounded C03 check)')
    cx.set_hook('int_of_real', lambda ex, st, a: VI(z3.ToInt(a.t)))

    def gm(ex, st, r, a, kw):
        return VR(GM(z3.ToInt(toreal(a[0])), toreal(a[2]), toreal(a[3])))
    cx.call('get_moment', gm, trusted='Assignment.get_moment(k, ctx, c, rest) (contracts/assignment.py)')
    cx.requires(z3.Not(trig.t))
    _, mk, (acc_p, acc_r) = tuple_sort([DN, DR])
    S = z3.RecFunction('S_terms', I, R); j = z3.Int('j')
    z3.RecAddDefinition(S, [j], z3.If(j <= 0, z3.RealVal(0), S(j - 1) + GM(z3.ToInt(acc_p(terms.t[j - 1])), c.t, acc_r(terms.t[j - 1]))))
    cx.invariant(0, lambda st: toreal(st['result']) == restw.t + S(st['$i0'].t))
    cx.ensures(lambda st, r: toreal(r) == restw.t + S(z3.Length(terms.t)))
    cx.note('trigger branch (functional assignments of draws) is excluded by the precondition; it is covered by the bounded C13 check')


@contract(F, 'RecBuilder.get_recurrence', ['C03', 'C01', 'C20'])
def get_recurrence(cx):
    """right side = RED(fold of  r -> (NEC(a_i, r) ? RED(REP(r, a_i)) : r)  over the body assignments i = last, last-1, ..., 0)"""
    NEC = z3.Function('replace_is_necessary', REF, R, B); REP = z3.Function('replace_assign', R, REF, R); RED = z3.Function('reduce_powers', R, R)
    body = cx.seq('loop_body', DRef('Assignment')); mono = cx.real('monomial'); last = cx.int('last_assign_index')
    prog = cx.obj('Program', loop_body=body)
    ctx0 = cx.ref('ctx0')
    self = cx.obj('RecBuilder', program=prog, context=ctx0)
    cx.param(self=self, monomial=mono)
    FRESH = z3.Function('context_created_in_this_call', REF, B)
    cx.axiom(z3.Not(FRESH(ctx0.t)))

    def new_context(ex, st, r, a, kw):
        c = ex.fresh(REF, 'ctx'); ex.axioms.append(FRESH(c)); return V('ref', c)
    cx.call('RecBuilderContext', new_context)
    cx.attr('free_symbols', lambda ex, st, o: V('opaque'))
    cx.call('_get_last_assign_index', lambda ex, st, r, a, kw: last, trusted='_get_last_assign_index contract (above)')
    cx.call('_assign_replace_is_necessary', lambda ex, st, r, a, kw: VB(NEC(a[0].t, toreal(a[1]))), trusted='_assign_replace_is_necessary')

    def replace_assign(ex, st, r, a, kw):
        # the trigger / functional-assignment registrations belong to ONE monomial: the context in use was created in this call (C20: no leak
        # from the monomials handled earlier by the same builder)
        ex.need(st, FRESH(st.heap[self.t]['context'].t), 'context.fresh-for-this-monomial@0', 'ensures')
        return VR(REP(toreal(a[0]), a[1].t))
    cx.call('_replace_assign', replace_assign, trusted='_replace_assign contract (above)')
    cx.call('_reduce_powers', lambda ex, st, r, a, kw: VR(RED(toreal(a[0]))), trusted='_reduce_powers: value preserved on typed states (Finite.reduce_power contract)')
    cx.requires(last.t >= -1, last.t < z3.Length(body.t))
    CH = z3.RecFunction('chain', I, R, R); i = z3.Int('i'); r = z3.Real('r')
    step = z3.If(NEC(body.t[i], r), RED(REP(r, body.t[i])), r)
    z3.RecAddDefinition(CH, [i, r], z3.If(i < 0, r, CH(i - 1, step)))
    # ghost index g = number of iterations done; the current assignment index is last - g
    cx.invariant(0, lambda st: CH(last.t - st['$i0'].t, toreal(st['right_side'])) == CH(last.t, mono.t))
    cx.ensures(lambda st, res: toreal(res) == RED(CH(last.t, mono.t)))


@contract(F, 'RecBuilder.get_recurrences', ['C03', 'C01'])
def get_recurrences(cx):
    """the returned system is CLOSED: it has an equation for the goal monomial and for every monomial that occurs in a right-hand side
    (for every order in which the worklist set is popped); termination of the worklist is not verified."""
    goal = cx.ref('monomial')
    cx.param(self=cx.obj('RecBuilder', program=cx.obj('Program', symbols=V('opaque'))), monomial=goal)
    worklist_closure(cx, goal.t)


def worklist_closure(cx, goal_t):
    """shared by RecBuilder.get_recurrences and DiffRecBuilder.get_recurrences (same worklist): goal_t is the monomial the worklist starts from"""
    REC = z3.Function('recurrence_of', REF, REF)                              # get_recurrence(m) as an expression object
    MONS = z3.Function('monomials_of', REF, z3.SeqSort(tuple_sort([DR, DRef()])[0]))     # get_monoms(rec): (coefficient, monomial) pairs
    _, mk, (acc_c, acc_m) = tuple_sort([DR, DRef()])
    goal = V('ref', goal_t)
    cx.call('sympify', lambda ex, st, r, a, kw: a[0])
    cx.call('get_recurrence', lambda ex, st, r, a, kw: V('ref', REC(a[0].t)), trusted='get_recurrence contract (above)')
    cx.call('get_monoms', lambda ex, st, r, a, kw: V('seq', MONS(a[0].t), ek=DTuple(DR, DRef())), trusted='get_monoms(rhs): the monomials of the right-hand side (bounded C03 check)')
    cx.call('get_initial_values', lambda ex, st, r, a, kw: V('opaque'))
    cx.call('Recurrences', lambda ex, st, r, a, kw: a[0])
    empty_map = V('map', (z3.K(REF, z3.Const('no_rec', REF)), z3.K(REF, z3.BoolVal(False))), kk=DRef(), vk=DRef(), size=z3.IntVal(0))
    cx.set_hook('empty_kinds', {'recurrence_dict': empty_map, 'processed': D('set', elem=DRef())})
    x = z3.Const('xm', REF); j = z3.Int('jm')

    def keys_ok(st):
        arr, dom = st['recurrence_dict'].t
        return z3.ForAll([x], z3.And(z3.Select(dom, x) == member(st['processed'].t, x), z3.Implies(z3.Select(dom, x), z3.Select(arr, x) == REC(x))))

    def covered(st, m_):
        return z3.Or(member(st['processed'].t, m_), member(st['to_process'].t, m_))

    def closed_except(st, cur=None, upto=None):
        body = z3.Implies(z3.And(member(st['processed'].t, x), 0 <= j, j < z3.Length(MONS(REC(x)))),
                          z3.Or(covered(st, acc_m(MONS(REC(x))[j])), z3.And(x == cur, j >= upto) if cur is not None else z3.BoolVal(False)))
        return z3.ForAll([x, j], body)
    cx.invariant(0, lambda st: z3.And(keys_ok(st), covered(st, goal.t), closed_except(st)))
    cx.invariant(1, lambda st: z3.And(keys_ok(st), covered(st, goal.t), member(st['processed'].t, st['next_monom'].t),
                                      st['monoms'].t == MONS(REC(st['next_monom'].t)), closed_except(st, st['next_monom'].t, st['$i1'].t)))

    def post(st, r):
        arr, dom = r.t
        return z3.And(z3.Select(dom, goal.t),
                      z3.ForAll([x, j], z3.Implies(z3.And(z3.Select(dom, x), 0 <= j, j < z3.Length(MONS(REC(x)))), z3.Select(dom, acc_m(MONS(REC(x))[j])))))
    cx.ensures(post)


@contract(F, 'RecBuilder.get_initial_value', ['C03', 'C01', 'C20'])
def get_initial_value(cx):
    """E(M) before the first iteration: the monomial is pushed backwards through the initial block (last assignment first), then every remaining
    program variable v of the monomial is replaced by its symbolic initial value v0"""
    NEC = z3.Function('replace_is_necessary', REF, R, B); REP = z3.Function('replace_assign', R, REF, R); V0 = z3.Function('to_initial_symbols', R, R)
    init = cx.seq('initial', DRef('Assignment')); mono = cx.real('monom')
    prog = cx.obj('Program', initial=init, symbols=V('opaque'))
    ctx0 = cx.ref('ctx0'); me = cx.obj('RecBuilder', program=prog, context=ctx0)
    cx.param(self=me, monom=mono)
    FRESH = z3.Function('context_created_in_this_call', REF, B)
    cx.axiom(z3.Not(FRESH(ctx0.t)))

    def new_context(ex, st, r, a, kw):
        c = ex.fresh(REF, 'ctx'); ex.axioms.append(FRESH(c)); return V('ref', c)
    cx.call('RecBuilderContext', new_context)
    cx.call('_assign_replace_is_necessary', lambda ex, st, r, a, kw: VB(NEC(a[0].t, toreal(a[1]))), trusted='_assign_replace_is_necessary')

    def replace_assign(ex, st, r, a, kw):
        ex.need(st, FRESH(st.heap[me.t]['context'].t), 'context.fresh-for-this-monomial@0', 'ensures')
        return VR(REP(toreal(a[0]), a[1].t))
    cx.call('_replace_assign', replace_assign, trusted='_replace_assign contract (above)')
    frees = cx.seq('remaining_variables', DRef('Symbol'))
    cx.attr('free_symbols', lambda ex, st, o: V('fs', toreal(o)))

    def difference(ex, st, r, a, kw):
        # D31: the variables to rename are those of the pushed-back EXPRESSION (they may have entered through right-hand sides of the initial
        # block), not those of the goal monomial
        ok = r.kind == 'fs' and 'result' in st.vars and r.t.eq(toreal(st['result']))
        ex.need(st, z3.BoolVal(bool(ok)), 'initial-symbols.of-the-pushed-back-expression@0', 'ensures')
        return V('set', frees.t, ek=DRef())
    cx.call('difference', difference, trusted='e.free_symbols - program.symbols: the program variables occurring in e')
    SUB = z3.Function('replace_by_initial_symbol', R, REF, R)
    cx.call('Symbol', lambda ex, st, r, a, kw: V('opaque'))
    cx.call('xreplace', lambda ex, st, r, a, kw: VR(SUB(toreal(r), st['sym'].t)), trusted='xreplace({v: v0})')
    n = z3.Length(init.t)
    CH = z3.RecFunction('init_chain', I, R, R); i = z3.Int('i'); rr = z3.Real('rr')
    # processing order: reversed(initial): position g handles initial[n-1-g]
    z3.RecAddDefinition(CH, [i, rr], z3.If(i < 0, rr, CH(i - 1, z3.If(NEC(init.t[i], rr), REP(rr, init.t[i]), rr))))
    FD = z3.RecFunction('subst_fold', I, R, R); k = z3.Int('k'); r2 = z3.Real('r2')
    z3.RecAddDefinition(FD, [k, r2], z3.If(k <= 0, r2, SUB(FD(k - 1, r2), frees.t[k - 1])))
    cx.invariant(0, lambda st: CH(n - 1 - st['$i0'].t, toreal(st['result'])) == CH(n - 1, mono.t))
    cx.invariant(1, lambda st: toreal(st['result']) == FD(st['$i1'].t, CH(n - 1, mono.t)))
    cx.ensures(lambda st, r: toreal(r) == FD(z3.Length(frees.t), CH(n - 1, mono.t)))


@contract(F, 'RecBuilder._reduce_powers', ['C03', 'C05', 'C01'])
def reduce_powers(cx):
    """power reduction preserves the VALUE of the polynomial on every state in which each finite variable has a value of its type: every term
    coefficient * prod_i v_i**p_i is rebuilt as coefficient * prod_i reduce_power_i(p_i), the i-th power being reduced with the type of the i-th
    finite variable (positional alignment of get_terms_with_vars' exponent vectors with program.finite_variables)."""
    TS, mk, (acc_p, acc_r) = tuple_sort([DSeq(DI), DR])
    poly = cx.real('poly'); fv = cx.seq('finite_variables', DRef('Symbol'))
    VALUE = z3.Function('value_of_variable', REF, R); TYPE = z3.Function('type_of', REF, REF); VAROF = z3.Function('variable_of_type', REF, REF)
    prog = cx.obj('Program', finite_variables=fv)
    cx.param(self=cx.obj('RecBuilder', program=prog), poly=poly)
    terms = cx.seq('terms_with_vars', DTuple(DSeq(DI), DR)); rest0 = cx.real('rest_without_vars')
    nv = z3.Length(fv.t); t = z3.Int('t'); i = z3.Int('i'); pw = z3.Const('pw', z3.SeqSort(I)); vq = z3.Const('vq', REF)
    PRODP = z3.RecFunction('product_of_powers', z3.SeqSort(I), I, R)
    z3.RecAddDefinition(PRODP, [pw, i], z3.If(i <= 0, z3.RealVal(1), PRODP(pw, i - 1) * POW(VALUE(fv.t[i - 1]), pw[i - 1])))
    SUMT = z3.RecFunction('sum_of_terms', I, R)
    z3.RecAddDefinition(SUMT, [t], z3.If(t <= 0, z3.RealVal(0), SUMT(t - 1) + acc_r(terms.t[t - 1]) * PRODP(acc_p(terms.t[t - 1]), nv)))

    def gtv(ex, st, r, a, kw):
        if not (a[1].kind == 'seq' and a[1].t.eq(fv.t)): raise OutOfReach('get_terms_with_vars over another variable list')
        st.pc += [toreal(a[0]) == rest0.t + SUMT(z3.Length(terms.t)),
                  z3.ForAll([t], z3.Implies(z3.And(0 <= t, t < z3.Length(terms.t)), z3.Length(acc_p(terms.t[t])) == nv))]
        return VTuple(terms, rest0)
    cx.call('get_terms_with_vars', gtv, trusted='get_terms_with_vars(poly, vars): poly = rest + sum of coefficient * prod vars[i]**powers[i], exponent vectors aligned with vars (C03 bounded)')
    cx.call('get_type', lambda ex, st, r, a, kw: V('ref', TYPE(a[0].t)))
    cx.axiom(z3.ForAll([vq], VAROF(TYPE(vq)) == vq))
    cx.set_hook('materialise', ('finite_types',))
    cx.call('reduce_power', lambda ex, st, r, a, kw: VR(POW(VALUE(VAROF(r.t)), toint(a[0]))),
            trusted='Finite.reduce_power contract (contracts/misc.py): equals variable**power at every value of the type')
    cx.invariant(0, lambda st: toreal(st['result']) == rest0.t + SUMT(st['$i0'].t))
    cx.invariant(1, lambda st: z3.And(toreal(st['term']) == toreal(st['rest']) * PRODP(st['var_powers'].t, st['$i1'].t),
                                      toreal(st['result']) == rest0.t + SUMT(st['$i0'].t)))
    cx.ensures(lambda st, r: toreal(r) == poly.t)
