"""Sidecar contracts: program/distribution/*.py sample() (C12): the arguments handed to the scipy / random sampler denote -- under scipy's documented
parametrisation (assumed contract of the external sampler, stated next to each obligation) -- the distribution whose moments and support
the analysis uses; a parameter that is not numeric in the state is an EvaluationException."""
import z3
from pyvc.core import *
from pyvc.verify import contract, ind

D = 'program/distribution/'
VAL = z3.Function('param_value_in_state', REF, R); NUM = z3.Function('param_is_number_in_state', REF, B)
SQRT = z3.Function('sqrt', R, R)
DRAW = z3.Const('drawn_value', R)


def sampler(file, cls, fields, sampler_name, expected, numeric_attr='is_Number', scaled=None, domain=None):
    @contract(D + file, f'{cls}.sample', ['C12'])
    def c(cx):
        ps = {f: cx.ref(f) for f in fields}
        cx.param(self=cx.obj(cls, **ps), state=cx.ref('state'))
        cx.call('subs', lambda ex, st, r, a, kw: V('num', VAL(r.t), src=r), trusted='Expr.subs(state): value of the parameter in the state')
        cx.call('sympify', lambda ex, st, r, a, kw: a[0])
        cx.call('simplify', lambda ex, st, r, a, kw: r)
        for at in ('is_Number', 'is_real'):
            cx.attr(at, lambda ex, st, o: VB(NUM(o.x['src'].t)))
        cx.call('EvaluationException', lambda ex, st, r, a, kw: V('exc', 'EvaluationException'))
        cx.call('math.sqrt', lambda ex, st, r, a, kw: VN(SQRT(toreal(a[0]))), trusted='math.sqrt')
        v = {f: VAL(ps[f].t) for f in fields}
        allnum = z3.And(*[NUM(ps[f].t) for f in fields])
        if domain: cx.requires(*domain(v))        # admissible parameter values

        def rvs(ex, st, r, a, kw):
            want = expected(v)
            got = dict(args=[toreal(x) for x in a], **{k: toreal(x) for k, x in kw.items()})
            conj = [z3.BoolVal(len(got['args']) == len(want.get('args', [])))]
            for x, y in zip(got['args'], want.get('args', [])): conj.append(x == y)
            for k in ('loc', 'scale'):
                if k in want: conj.append(got.get(k, z3.RealVal(0 if k == 'loc' else 1)) == want[k])
                else: conj.append(z3.BoolVal(k not in got))
            ex.need(st, z3.And(*conj), 'sampler.arguments@0', 'ensures')
            return VN(DRAW)
        cx.call(sampler_name + '.rvs', rvs, trusted=f'scipy.stats.{sampler_name}.rvs with its documented loc/scale/shape parametrisation')
        cx.ensures(lambda st, r: z3.And(allnum, toreal(r) == (scaled(v) * DRAW if scaled else DRAW)))
        cx.raises(lambda st, e: z3.Not(allnum))
    return c


# scipy: norm(loc=mean, scale=standard deviation); the analysis uses Normal(mu, sigma2 = variance)
sampler('normal.py', 'Normal', ['mu', 'sigma2'], 'norm', lambda v: dict(loc=v['mu'], scale=SQRT(v['sigma2'])))
# scipy: uniform(loc, scale) is uniform on [loc, loc + scale]
sampler('uniform.py', 'Uniform', ['a', 'b'], 'uniform', lambda v: dict(loc=v['a'], scale=v['b'] - v['a']))
# scipy: laplace(loc, scale) has density exp(-|x - loc| / scale) / (2 scale)
sampler('laplace.py', 'Laplace', ['mu', 'b'], 'laplace', lambda v: dict(loc=v['mu'], scale=v['b']))
# scipy: expon(scale = 1 / rate)
sampler('exponential.py', 'Exponential', ['lamb'], 'expon', lambda v: dict(scale=1 / v['lamb']), domain=lambda v: [v['lamb'] != 0])
# scipy: gamma(a = shape, scale)
sampler('gamma.py', 'Gamma', ['k', 'theta'], 'gamma', lambda v: dict(args=[v['k']], scale=v['theta']))
# scipy: beta(a, b) on [0, 1]; the analysis uses scale * Beta(a, b)
sampler('beta.py', 'Beta', ['a', 'b', 'scale'], 'beta', lambda v: dict(args=[v['a'], v['b']]), scaled=lambda v: v['scale'])
# scipy: bernoulli(p)
sampler('bernoulli.py', 'Bernoulli', ['p'], 'bernoulli', lambda v: dict(args=[v['p']]))
# scipy: truncnorm(a, b, loc, scale) truncates the STANDARD normal to [a, b] before applying loc and scale: a = (lower - mu) / sigma, b = (upper - mu) / sigma
sampler('truncated_normal.py', 'TruncNormal', ['mu', 'sigma2', 'a', 'b'], 'truncnorm',
        lambda v: dict(args=[(v['a'] - v['mu']) / SQRT(v['sigma2']), (v['b'] - v['mu']) / SQRT(v['sigma2'])], loc=v['mu'], scale=SQRT(v['sigma2'])),
        domain=lambda v: [SQRT(v['sigma2']) != 0])


@contract(D + 'categorical.py', 'Categorical.sample', ['C12'])
def categorical_sample(cx):
    """value i is drawn with weight probabilities[i] (evaluated in the state): random.choices(range(n), weights, k=1)"""
    probs = cx.seq('probabilities', DRef('Expr'))
    cx.param(self=cx.obj('Categorical', probabilities=probs), state=cx.ref('state'))
    cx.call('subs', lambda ex, st, r, a, kw: V('num', VAL(r.t), src=r), trusted='Expr.subs(state)')
    cx.attr('is_Number', lambda ex, st, o: VB(NUM(o.x['src'].t)))
    cx.call('EvaluationException', lambda ex, st, r, a, kw: V('exc', 'EvaluationException'))
    cx.set_hook('empty_kinds', {'probabilities': DSeq(DN)})
    j = z3.Int('j'); n = z3.Length(probs.t)

    def choices(ex, st, r, a, kw):
        pop, w = a[0], kw['weights']
        ex.need(st, z3.And(z3.BoolVal(pop.kind == 'range'), pop.x['lo'] == 0, pop.x['hi'] == n, z3.Length(w.t) == n,
                           z3.ForAll([j], z3.Implies(z3.And(0 <= j, j < n), w.t[j] == VAL(probs.t[j]))), toint(kw['k']) == 1), 'random_choices.arguments@0', 'ensures')
        return V('seq', z3.Unit(z3.Const('chosen_index', I)), ek=DI)
    cx.call('random.choices', choices, trusted='random.choices(population, weights, k=1)')
    allnum = lambda upto: z3.ForAll([j], z3.Implies(z3.And(0 <= j, j < upto), NUM(probs.t[j])))
    cx.invariant(0, lambda st: z3.And(z3.Length(st['probabilities'].t) == st['$i0'].t, allnum(st['$i0'].t),
                                      z3.ForAll([j], z3.Implies(z3.And(0 <= j, j < st['$i0'].t), st['probabilities'].t[j] == VAL(probs.t[j])))))
    cx.ensures(lambda st, r: allnum(n))
    cx.raises(lambda st, e: z3.Not(allnum(n)))


@contract(D + 'discrete_uniform.py', 'DiscreteUniform.sample', ['C12'])
def discrete_uniform_sample(cx):
    vals = cx.seq('values', DN)
    cx.param(self=cx.obj('DiscreteUniform', values=vals), state=cx.ref('state'))

    def choice(ex, st, r, a, kw):
        ex.need(st, a[0].t == vals.t, 'random_choice.arguments@0', 'ensures')
        return VN(DRAW)
    cx.call('random.choice', choice, trusted='random.choice(seq): uniform over the sequence')
    cx.ensures(lambda st, r: toreal(r) == DRAW)
