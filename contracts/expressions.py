"""Sidecar contracts: utils/expressions.py -- the structural helpers that many other contracts use as trusted callees (get_monoms,
get_terms_with_var).  Values of sympy/symengine expressions; sums and products of expressions are kept symbolic (PLUS is real addition, products
are the uninterpreted `times`), the two structural facts about expressions are assumed where used and listed as lemmas:
  L-add : an expression equals the sum of its top-level summands (e.args if e.is_Add else [e])
  L-mul : a term equals the product of its factors (t.args if t.is_Mul else [t]), here in the partitioned form  t == times(coefficient part, rest)."""
import z3
from pyvc.core import *
from pyvc.verify import contract

F = 'utils/expressions.py'
ISADD = z3.Function('is_Add', R, B); ISMUL = z3.Function('is_Mul', R, B); ARGS = z3.Function('args', R, z3.SeqSort(R))
MUL = z3.Function('times', R, R, R)
HASNC = z3.Function('has_non_constant_symbol', R, B)


def _structure(cx):
    cx.attr('is_Add', lambda ex, st, o: VB(ISADD(toreal(o)))); cx.attr('is_Mul', lambda ex, st, o: VB(ISMUL(toreal(o))))
    cx.attr('args', lambda ex, st, o: V('seq', ARGS(toreal(o)), ek=DR))
    cx.attr('free_symbols', lambda ex, st, o: V('fs', toreal(o)))
    cx.set_hook('binop', lambda ex, st, op, a, b: VR(MUL(toreal(a), toreal(b))) if op == 'Mult' else None)
    xq = z3.Real('xq')
    cx.axiom(z3.ForAll([xq], MUL(xq, z3.RealVal(1)) == xq), z3.ForAll([xq], MUL(z3.RealVal(1), xq) == xq))      # the unit of the product


@contract(F, 'get_monoms', ['C03', 'C01', 'C19'])
def get_monoms_c(cx):
    """(coefficient, monomial) pairs of a polynomial: the products coefficient*monomial of the returned pairs add up to the polynomial minus its
    constant part -- and to the whole polynomial when with_constant is set (the constant part is then returned as (constant, 1) unless it is 0)."""
    _structure(cx)
    TS, mk, (acc_c, acc_m) = tuple_sort([DR, DR])
    poly = cx.real('poly'); with_const = cx.bool('with_constant'); zero = VN(z3.RealVal(0)); one = VN(z3.RealVal(1))
    cx.param(poly=poly, constant_symbols=V('constsyms', None), with_constant=with_const, zero=zero, one=one)
    cx.call('difference', lambda ex, st, r, a, kw: VB(HASNC(r.t)) if r.kind == 'fs' else NotImplemented, trusted='e.free_symbols - constant_symbols is non-empty iff e mentions a non-constant symbol')
    cx.call('set', lambda ex, st, r, a, kw: V('constsyms', None)); cx.call('One', lambda ex, st, r, a, kw: one); cx.call('Zero', lambda ex, st, r, a, kw: zero)
    T = z3.If(ISADD(poly.t), ARGS(poly.t), z3.Unit(poly.t))
    Fs = lambda t: z3.If(ISMUL(t), ARGS(t), z3.Unit(t))
    sq = z3.Const('sq', z3.SeqSort(R)); g = z3.Int('g'); i = z3.Int('i'); ps = z3.Const('ps', z3.SeqSort(TS))
    CPF = z3.RecFunction('coefficient_part', z3.SeqSort(R), I, R); MPF = z3.RecFunction('monomial_part', z3.SeqSort(R), I, R)
    z3.RecAddDefinition(CPF, [sq, g], z3.If(g <= 0, z3.RealVal(1), z3.If(HASNC(sq[g - 1]), CPF(sq, g - 1), MUL(CPF(sq, g - 1), sq[g - 1]))))
    z3.RecAddDefinition(MPF, [sq, g], z3.If(g <= 0, z3.RealVal(1), z3.If(HASNC(sq[g - 1]), MUL(MPF(sq, g - 1), sq[g - 1]), MPF(sq, g - 1))))
    cp = lambda t: CPF(Fs(t), z3.Length(Fs(t))); mp = lambda t: MPF(Fs(t), z3.Length(Fs(t)))
    SUMP = z3.RecFunction('sum_of_pairs', z3.SeqSort(TS), I, R)
    z3.RecAddDefinition(SUMP, [ps, g], z3.If(g <= 0, z3.RealVal(0), SUMP(ps, g - 1) + MUL(acc_c(ps[g - 1]), acc_m(ps[g - 1]))))
    NONCONST = z3.RecFunction('sum_of_non_constant_terms', I, R); CONSTS = z3.RecFunction('sum_of_constant_terms', I, R)
    z3.RecAddDefinition(NONCONST, [i], z3.If(i <= 0, z3.RealVal(0), NONCONST(i - 1) + z3.If(HASNC(T[i - 1]), T[i - 1], 0)))
    z3.RecAddDefinition(CONSTS, [i], z3.If(i <= 0, z3.RealVal(0), CONSTS(i - 1) + z3.If(HASNC(T[i - 1]), 0, T[i - 1])))
    lem = lambda t: t == MUL(cp(t), mp(t))                     # L-mul for the term at hand
    xt = z3.Const('xt', TS)
    cx.lemma('L-append: the sum of pairs of s ++ [x] is the sum of pairs of s plus the product of x (induction on the length of s)',
             z3.ForAll([ps, xt], SUMP(z3.Concat(ps, z3.Unit(xt)), z3.Length(ps) + 1) == SUMP(ps, z3.Length(ps)) + MUL(acc_c(xt), acc_m(xt))))
    cx.lemmas.append(('L-add / L-mul: an expression is the sum of its top-level summands; a term is the product of its factors (coefficient part times rest)', None))
    cx.set_hook('empty_kinds', {'monoms': DSeq(DTuple(DR, DR))})

    def inv_outer(st):
        ii = st['$i0'].t; m = st['monoms'].t
        return dict(prove=z3.And(SUMP(m, z3.Length(m)) == NONCONST(ii), toreal(st['constant']) == CONSTS(ii)),
                    assume=z3.Implies(z3.And(0 <= ii, ii < z3.Length(T)), lem(T[ii])))

    def inv_inner(st):
        ii = st['$i0'].t; gg = st['$i1'].t; m = st['monoms'].t; t = T[ii]
        return dict(prove=z3.And(SUMP(m, z3.Length(m)) == NONCONST(ii), toreal(st['constant']) == CONSTS(ii), HASNC(t),
                                 toreal(st['coeff']) == CPF(Fs(t), gg), toreal(st['monom']) == MPF(Fs(t), gg)),
                    assume=lem(t))
    cx.invariant(0, inv_outer); cx.invariant(1, inv_inner)
    n = z3.Length(T)
    cx.ensures(lambda st, r: SUMP(r.t, z3.Length(r.t)) == NONCONST(n) + z3.If(with_const.t, CONSTS(n), 0))
