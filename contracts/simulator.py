"""Sidecar contracts: simulation/simulator.py (C12).

Ghost model: program states are abstract Refs.  G(s): the loop guard holds in s.  A state produced by Simulator.execute carries
from(r) (the state it was computed from) and kind(r) in {INIT, BODY}.  copy() returns the same abstract state."""
import z3
from pyvc.core import *
from pyvc.verify import contract, ind

F = 'simulation/simulator.py'
G = z3.Function('guard_holds', REF, B)
FROM = z3.Function('executed_from', REF, REF)
KIND = z3.Function('executed_what', REF, I)       # 0 = initial block on the empty state, 1 = loop body
EMPTY = z3.Const('empty_state', REF)


def step_ok(a, b):
    """b is the successor of a: the body executed on (a copy of) a iff the guard holds in a, else a copy of a (stuttering)"""
    return z3.If(G(a), z3.And(KIND(b) == 1, FROM(b) == a), b == a)


def run_ok(seq, n):
    j = z3.Int('jr')
    return z3.And(z3.Length(seq) == n + 1, KIND(seq[0]) == 0, FROM(seq[0]) == EMPTY,
                  z3.ForAll([j], z3.Implies(z3.And(0 <= j, j < n), step_ok(seq[j], seq[j + 1]))))


@contract(F, 'Simulator.simulate', ['C12'])
def simulate(cx):
    iters, samples = cx.int('iterations'), cx.int('samples')
    prog = cx.obj('Program', initial=V('ref', z3.Const('initial_block', REF)), loop_body=V('ref', z3.Const('loop_body', REF)), loop_guard=V('ref', z3.Const('loop_guard', REF)))
    cx.param(self=cx.obj('Simulator', iterations=iters), program=prog, goals=cx.ref('goals'), samples=samples)
    cx.requires(iters.t >= 0, samples.t >= 0)
    cx.call('Bar', lambda ex, st, r, a, kw: V('opaque'))

    def execute(ex, st, r, a, kw):
        res = ex.fresh(REF, 'state')
        what = 0 if a[0].t.eq(z3.Const('initial_block', REF)) else 1
        src = EMPTY if a[1].kind == 'map' else a[1].t
        ex.axioms += [KIND(res) == what, FROM(res) == src]       # facts about the fresh result only
        return V('ref', res)
    cx.call('execute', execute, trusted='Simulator.execute(block, state): executes the block on the given state (contracts below)')
    cx.call('copy', lambda ex, st, r, a, kw: r)
    cx.call('evaluate', lambda ex, st, r, a, kw: VB(G(a[0].t)), trusted='Condition.evaluate (contracts/condition.py)')
    cx.call('SimulationResult', lambda ex, st, r, a, kw: a[0])
    cx.set_hook('empty_kinds', {'result': DSeq(DSeq(DRef()))})
    s_ = z3.Int('sr')
    cx.invariant(0, lambda st: z3.And(z3.Length(st['result'].t) == st['$i0'].t,
                                      z3.ForAll([s_], z3.Implies(z3.And(0 <= s_, s_ < st['$i0'].t), run_ok(st['result'].t[s_], iters.t)))))
    cx.invariant(1, lambda st: z3.And(z3.Length(st['result'].t) == st['$i0'].t,
                                      z3.ForAll([s_], z3.Implies(z3.And(0 <= s_, s_ < st['$i0'].t), run_ok(st['result'].t[s_], iters.t))),
                                      run_ok(st['states'].t, st['$i1'].t)))
    # every sample is a run: initial block on the empty state, then per iteration the body iff the guard holds, else the state is frozen
    cx.ensures(lambda st, r: z3.And(z3.Length(r.t) == samples.t,
                                    z3.ForAll([s_], z3.Implies(z3.And(0 <= s_, s_ < samples.t), run_ok(r.t[s_], iters.t)))))


H = z3.Function('cond_holds_in', REF, REF, B)          # condition object, state
EXE = z3.Function('execute_block', REF, REF, REF)       # block, state -> state (one resolution of the randomness, fixed)


@contract(F, 'Simulator._#1', ['C12'], name=F + '::Simulator.execute[IfStatem]')
def execute_if(cx):
    """first branch whose condition holds is executed; otherwise the else branch if present; otherwise the state is returned unchanged"""
    conds = cx.seq('conditions', DRef('Condition')); brs = cx.seq('branches', DRef()); els = cx.ref('else_branch'); has_else = cx.bool('has_else')
    state = cx.ref('state')
    el = V('ref', els.t, nullable=z3.Not(has_else.t))
    pe = cx.obj('IfStatem', conditions=conds, branches=brs, else_branch=el)
    cx.param(self=cx.obj('Simulator'), program_element=pe, state=state)
    cx.requires(z3.Length(conds.t) == z3.Length(brs.t))
    cx.call('evaluate', lambda ex, st, r, a, kw: VB(H(r.t, a[0].t)), trusted='Condition.evaluate (contracts/condition.py)')
    cx.call('execute', lambda ex, st, r, a, kw: V('ref', EXE(a[0].t, a[1].t)), trusted='Simulator.execute on a branch (list of statements)')
    j = z3.Int('j'); i = z3.Int('i')
    cx.invariant(0, lambda st: z3.ForAll([j], z3.Implies(z3.And(0 <= j, j < st['$i0'].t), z3.Not(H(conds.t[j], state.t)))))
    none = z3.ForAll([j], z3.Implies(z3.And(0 <= j, j < z3.Length(conds.t)), z3.Not(H(conds.t[j], state.t))))

    def post(st, r):
        first = z3.Exists([i], z3.And(0 <= i, i < z3.Length(conds.t), H(conds.t[i], state.t), r.t == EXE(brs.t[i], state.t),
                                      z3.ForAll([j], z3.Implies(z3.And(0 <= j, j < i), z3.Not(H(conds.t[j], state.t))))))
        return z3.Or(first, z3.And(none, r.t == z3.If(has_else.t, EXE(els.t, state.t), state.t)))
    cx.ensures(post)


@contract('program/assignment/assignment.py', 'Assignment.evaluate', ['C12', 'C02'])
def assignment_evaluate(cx):
    """v = rhs | cond : default  on a concrete state: cond true => state[v] := rhs, else state[v] := state[default]; nothing else changes;
    a missing default is an EvaluationException"""
    holds = cx.bool('condition_holds'); rhs = cx.num('right_side_value')
    var, dflt = cx.ref('variable', 'Symbol'), cx.ref('default', 'Symbol')
    state = cx.map('state', DRef(), DN)
    self = cx.obj('Assignment', condition=cx.ref('condition'), variable=var, default=dflt)
    cx.param(self=self, state=state)
    cx.call('evaluate', lambda ex, st, r, a, kw: holds, trusted='Condition.evaluate')
    cx.call('evaluate_right_side', lambda ex, st, r, a, kw: rhs, trusted='evaluate_right_side: one draw of the right-hand side in the state')
    cx.call('EvaluationException', lambda ex, st, r, a, kw: V('exc', 'EvaluationException'))
    arr, dom = state.t
    k = z3.Const('k', REF)

    def post(st, r):
        a2, d2 = r.t
        val = z3.If(holds.t, rhs.t, z3.Select(arr, dflt.t))
        return z3.And(z3.Select(d2, var.t), z3.Select(a2, var.t) == val,
                      z3.ForAll([k], z3.Implies(k != var.t, z3.And(z3.Select(a2, k) == z3.Select(arr, k), z3.Select(d2, k) == z3.Select(dom, k)))))
    cx.ensures(post)
    cx.raises(lambda st, e: z3.And(z3.Not(holds.t), z3.Not(z3.Select(dom, dflt.t))))


@contract('program/assignment/poly_assignment.py', 'PolyAssignment.evaluate_right_side', ['C12'])
def evaluate_right_side(cx):
    """a probabilistic choice is sampled by random.choices over the branch polynomials evaluated in the state, weighted by the branch
    probabilities evaluated in the state (same order, same number); a branch that is not numeric in the state is an EvaluationException"""
    VALAT = z3.Function('value_in_state', REF, R); ISNUM = z3.Function('is_number_in_state', REF, B)
    polys = cx.seq('polynomials', DRef('Expr')); probs = cx.seq('probabilities', DRef('Expr'))
    cx.param(self=cx.obj('PolyAssignment', polynomials=polys, probabilities=probs), state=cx.ref('state'))
    cx.call('subs', lambda ex, st, r, a, kw: V('num', VALAT(r.t), src=r), trusted='Expr.subs(state): value of the expression in the state')
    cx.attr('is_Number', lambda ex, st, o: VB(ISNUM(o.x['src'].t)))
    cx.call('EvaluationException', lambda ex, st, r, a, kw: V('exc', 'EvaluationException'))
    cx.set_hook('empty_kinds', {'probabilities': DSeq(DN), 'polynomials': DSeq(DN)})
    j = z3.Int('j')

    def choices(ex, st, r, a, kw):
        pop, w = a[0], kw['weights']
        ex.need(st, z3.And(z3.Length(pop.t) == z3.Length(polys.t), z3.Length(w.t) == z3.Length(probs.t),
                           z3.ForAll([j], z3.Implies(z3.And(0 <= j, j < z3.Length(polys.t)), pop.t[j] == VALAT(polys.t[j]))),
                           z3.ForAll([j], z3.Implies(z3.And(0 <= j, j < z3.Length(probs.t)), w.t[j] == VALAT(probs.t[j]))),
                           (toint(kw['k']) == 1) if 'k' in kw else z3.BoolVal(True)), 'random_choices.arguments@0', 'ensures')
        return V('seq', z3.Unit(z3.Const('chosen', R)), ek=DN)
    cx.call('random.choices', choices, trusted='random.choices(population, weights, k=1): one element drawn with the given weights')

    def generic_seq(name):
        def h(ex, st, r, a, kw):            # dict(...), list(dict), dict.values(): some sequence of numbers about which nothing is known
            return V('seq', ex.fresh(z3.SeqSort(R), name), ek=DN)
        return h
    cx.call('dict', lambda ex, st, r, a, kw: V('table', None)); cx.call('zip', lambda ex, st, r, a, kw: V('opaque'))
    cx.call('list', lambda ex, st, r, a, kw: generic_seq('keys')(ex, st, r, a, kw) if a and a[0].kind in ('table', 'opaque') else NotImplemented)
    cx.call('values', lambda ex, st, r, a, kw: generic_seq('values')(ex, st, r, a, kw) if r.kind == 'table' else NotImplemented)
    cx.call('keys', lambda ex, st, r, a, kw: generic_seq('keys')(ex, st, r, a, kw) if r.kind == 'table' else NotImplemented)
    allnum = lambda seq, upto: z3.ForAll([j], z3.Implies(z3.And(0 <= j, j < upto), ISNUM(seq[j])))
    cx.invariant(0, lambda st: z3.And(z3.Length(st['probabilities'].t) == st['$i0'].t, allnum(probs.t, st['$i0'].t),
                                      z3.ForAll([j], z3.Implies(z3.And(0 <= j, j < st['$i0'].t), st['probabilities'].t[j] == VALAT(probs.t[j])))))
    cx.invariant(1, lambda st: z3.And(z3.Length(st['probabilities'].t) == z3.Length(probs.t), allnum(probs.t, z3.Length(probs.t)),
                                      z3.ForAll([j], z3.Implies(z3.And(0 <= j, j < z3.Length(probs.t)), st['probabilities'].t[j] == VALAT(probs.t[j]))),
                                      z3.Length(st['polynomials'].t) == st['$i1'].t, allnum(polys.t, st['$i1'].t),
                                      z3.ForAll([j], z3.Implies(z3.And(0 <= j, j < st['$i1'].t), st['polynomials'].t[j] == VALAT(polys.t[j])))))
    cx.ensures(lambda st, r: z3.And(allnum(probs.t, z3.Length(probs.t)), allnum(polys.t, z3.Length(polys.t))))
    cx.raises(lambda st, e: z3.Not(z3.And(allnum(probs.t, z3.Length(probs.t)), allnum(polys.t, z3.Length(polys.t)))))
