def sre(e):
    from sympy import srepr, sympify
    try: return srepr(sympify(e))
    except Exception: return srepr(sympify(str(e)))


def cond_json(c):
    from program.condition import Atom, And, Or, Not, TrueCond, FalseCond
    g = bool(getattr(c, 'is_loop_guard', False))
    if isinstance(c, Atom): return dict(t='atom', l=sre(c.poly1), op=c.cop, r=sre(c.poly2), guard=g)
    if isinstance(c, And): return dict(t='and', a=cond_json(c.cond1), b=cond_json(c.cond2), guard=g)
    if isinstance(c, Or): return dict(t='or', a=cond_json(c.cond1), b=cond_json(c.cond2), guard=g)
    if isinstance(c, Not): return dict(t='not', a=cond_json(c.cond), guard=g)
    if isinstance(c, TrueCond): return dict(t='true', guard=g)
    if isinstance(c, FalseCond): return dict(t='false', guard=g)
    raise TypeError(type(c))
