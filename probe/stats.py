"""probe: the REAL utils.statistics / expansions / GoalParser on given inputs."""
import sys, json, os, traceback
sys.path.insert(0, os.environ.get('POLAR_REPO', '/repo'))


def sre(e):
    from sympy import srepr, sympify
    return srepr(sympify(e))


def main():
    req = json.load(sys.stdin)
    out = {}
    import sympy
    from sympy import Symbol, Rational, sympify
    if 'comb' in req:
        from utils import comb
        N = req['comb']
        out['comb'] = [[str(comb(n, k)) for k in range(0, n + 2)] for n in range(0, N + 1)]
    if 'convert' in req:
        from utils import raw_moments_to_centrals, raw_moments_to_cumulants
        K = req['convert']
        ms = {i: Symbol(f'm{i}') for i in range(1, K + 1)}
        c = raw_moments_to_centrals(dict(ms)); k = raw_moments_to_cumulants(dict(ms))
        out['centrals'] = {str(i): sre(v) for i, v in c.items()}
        out['cumulants'] = {str(i): sre(v) for i, v in k.items()}
    if 'goals' in req:
        from inputparser import GoalParser
        res = {}
        for g in req['goals']:
            try:
                kind, data = GoalParser.parse(g)
                res[g] = dict(kind=kind, data=[sre(d) if not isinstance(d, int) else d for d in data])
            except Exception as ex:
                res[g] = dict(error=type(ex).__name__)
        out['goals'] = res
    if 'gram_charlier' in req:
        from expansions import GramCharlierExpansion
        res = []
        for cum in req['gram_charlier']:
            d = {i + 1: sympify(c) for i, c in enumerate(cum)}
            try: res.append(sre(GramCharlierExpansion(d)()))
            except Exception as ex: res.append(dict(error=type(ex).__name__, msg=str(ex)[:200]))
        out['gram_charlier'] = res
    if 'cornish_fisher' in req:
        from expansions import CornishFisherExpansion
        res = []
        for cum in req['cornish_fisher']:
            d = {i + 1: sympify(c) for i, c in enumerate(cum)}
            try: res.append(sre(CornishFisherExpansion(d)()))
            except Exception as ex: res.append(dict(error=type(ex).__name__, msg=str(ex)[:200]))
        out['cornish_fisher'] = res
    return out


if __name__ == '__main__':
    try: o = main()
    except Exception as ex: o = dict(probe_error=repr(ex), tb=traceback.format_exc()[-2000:])
    sys.stdout.write('\n@@JSON@@' + json.dumps(o))
