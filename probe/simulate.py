"""probe: enumerates every resolution path of the REAL Simulator on a discrete program by scripting the random sources
(random.choices / random.choice / scipy bernoulli.rvs are replaced by a decision script; depth-first search over scripts).
Also captures the arguments every Distribution.sample hands to its scipy/random sampler.
request: {src, iterations} | {samplers: [{family, params}]}"""
import sys, json, os, traceback
sys.path.insert(0, os.environ.get('POLAR_REPO', '/repo'))


class Script:
    def __init__(self, decisions): self.d = list(decisions); self.i = 0; self.arity = []; self.prob = 1.0

    def decide(self, probs):
        k = self.d[self.i] if self.i < len(self.d) else 0
        self.i += 1; self.arity.append(len(probs)); self.prob *= probs[k]
        return k


CUR = [None]


def install():
    import random
    import scipy.stats as ss

    def choices(population, weights=None, k=1, **kw):
        pop = list(population); w = [float(x) for x in (weights if weights is not None else [1] * len(pop))]
        tot = sum(w); i = CUR[0].decide([x / tot for x in w]); return [pop[i]]

    def choice(seq):
        seq = list(seq); i = CUR[0].decide([1.0 / len(seq)] * len(seq)); return seq[i]
    random.choices = choices; random.choice = choice
    import program.distribution.bernoulli as pb

    class B:
        @staticmethod
        def rvs(p, *a, **k):
            return CUR[0].decide([1.0 - float(p), float(p)])
    pb.bernoulli = B


def enumerate_paths(src, iterations, max_paths=20000):
    from inputparser import Parser
    from simulation import Simulator
    import progress.bar

    class NoBar:
        def __init__(self, *a, **k): pass
        def next(self): pass
        def finish(self): pass
    import simulation.simulator as sim
    sim.Bar = NoBar
    prog = Parser().parse_string(src)
    paths = []
    stack = [[]]
    while stack:
        dec = stack.pop()
        sc = Script(dec); CUR[0] = sc
        res = Simulator(iterations).simulate(prog, [], 1)
        run = res.samples[0]
        # expand siblings of the first undecided position
        if len(sc.arity) > len(dec):
            pos = len(dec)
            for k in range(1, sc.arity[pos]): stack.append(dec + [k])
            stack.append(dec + [0]) if False else None
            # the current run took decision 0 at every undecided position: it is the path dec+[0,0,...]; its deeper siblings:
            for p in range(pos + 1, len(sc.arity)):
                for k in range(1, sc.arity[p]): stack.append(dec + [0] * (p - pos) + [k])
        paths.append(dict(prob=sc.prob, states=[{str(k): float(v) for k, v in s.items()} for s in run]))
        if len(paths) > max_paths: raise RuntimeError('too many paths')
    return paths


def sampler_args(cases):
    """capture what each Distribution.sample passes to its sampler"""
    from program.distribution import distribution_factory
    import importlib
    out = []
    mods = {'Normal': ('normal', 'norm'), 'Uniform': ('uniform', 'uniform'), 'Laplace': ('laplace', 'laplace'), 'DistExp': ('exponential', 'expon'),
            'Gamma': ('gamma', 'gamma'), 'Beta': ('beta', 'beta'), 'TruncNormal': ('truncated_normal', 'truncnorm'), 'Bernoulli': ('bernoulli', 'bernoulli')}
    for c in cases:
        fam = c['family']
        rec = dict(case=c)
        try:
            d = distribution_factory(fam, c['params'])
            modname, fn = mods[fam]
            mod = importlib.import_module('program.distribution.' + modname)
            cap = {}

            class Cap:
                @staticmethod
                def rvs(*a, **k):
                    cap['args'] = [float(x) for x in a]; cap['kwargs'] = {kk: float(v) for kk, v in k.items()}
                    return 0.5
            setattr(mod, fn, Cap)
            val = d.sample({})
            rec['captured'] = cap; rec['returned'] = float(val)
        except Exception as ex:
            rec['error'] = f'{type(ex).__name__}: {str(ex)[:200]}'
        out.append(rec)
    return out


def main():
    req = json.load(sys.stdin)
    if 'samplers' in req:
        return dict(samplers=sampler_args(req['samplers']))
    install()
    return dict(paths=enumerate_paths(req['src'], req['iterations']))


if __name__ == '__main__':
    try: o = main()
    except Exception as ex: o = dict(probe_error=repr(ex), tb=traceback.format_exc()[-2000:])
    sys.stdout.write('\n@@JSON@@' + json.dumps(o))
