"""probe: the REAL InvariantIdeal.compute_basis. request: {tuples: [{goal: srepr(closed form in n)}]}"""
import sys, json, os, traceback
sys.path.insert(0, os.environ.get('POLAR_REPO', '/repo'))


def main():
    req = json.load(sys.stdin)
    import sympy
    from sympy import srepr
    ns = {k: getattr(sympy, k) for k in dir(sympy) if not k.startswith('_')}
    from invariants import InvariantIdeal
    out = []
    for cfs in req['tuples']:
        try:
            ideal = InvariantIdeal({g: eval(t, dict(ns)) for g, t in cfs.items()})
            basis = ideal.compute_basis()
            out.append(dict(basis=[srepr(b) for b in basis], bases={srepr(k): str(v) for k, v in ideal.base_to_symbol.items()}))
        except Exception as ex:
            out.append(dict(error=type(ex).__name__, msg=str(ex)[:200], tb=traceback.format_exc()[-600:]))
    return dict(results=out)


if __name__ == '__main__':
    try: o = main()
    except Exception as ex: o = dict(probe_error=repr(ex), tb=traceback.format_exc()[-2000:])
    sys.stdout.write('\n@@JSON@@' + json.dumps(o))
