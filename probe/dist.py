"""probe: calls the REAL distribution classes. request: {cases: [{family, params:[str], ks:[int], transforms: bool}]}"""
import sys, json, os, traceback
sys.path.insert(0, os.environ.get('POLAR_REPO', '/repo'))


def sre(e):
    from sympy import srepr, sympify
    return srepr(sympify(e))


def main():
    req = json.load(sys.stdin)
    from program.distribution import distribution_factory
    from sympy import Symbol
    out = []
    for c in req['cases']:
        o = dict(case=c, moments={}, errors={})
        try:
            d = distribution_factory(c['family'], c['params'])
        except Exception as ex:
            o['construct_error'] = dict(error=type(ex).__name__, msg=str(ex)[:200]); out.append(o); continue
        o['str'] = str(d)
        for k in c['ks']:
            try: o['moments'][str(k)] = sre(d.get_moment(k))
            except Exception as ex: o['errors'][f'moment{k}'] = f'{type(ex).__name__}: {str(ex)[:150]}'
        try:
            o['discrete'] = bool(d.is_discrete())
            sup = d.get_support()
            o['support'] = [[sre(x[0]), sre(x[1])] if isinstance(x, tuple) else sre(x) for x in sup]
        except Exception as ex: o['errors']['support'] = f'{type(ex).__name__}: {str(ex)[:150]}'
        if c.get('transforms'):
            t = Symbol('t')
            for name in ('mgf', 'cf'):
                try: o[name] = sre(getattr(d, name)(t))
                except NotImplementedError: o[name] = None
                except Exception as ex: o['errors'][name] = f'{type(ex).__name__}: {str(ex)[:150]}'
            o['mgf_exists'] = {}
            for tv in c.get('mgf_at', []):
                try: o['mgf_exists'][tv] = bool(d.mgf_exists_at(__import__('sympy').sympify(tv)))
                except NotImplementedError: o['mgf_exists'][tv] = None
                except Exception as ex: o['errors'][f'mgf_exists_at {tv}'] = f'{type(ex).__name__}: {str(ex)[:150]}'
        out.append(o)
    return dict(results=out)


if __name__ == '__main__':
    try: o = main()
    except Exception as ex: o = dict(probe_error=repr(ex), tb=traceback.format_exc()[-2000:])
    sys.stdout.write('\n@@JSON@@' + json.dumps(o))
