"""probe: the REAL ExponentLattice.compute_basis. request: {lists: [[srepr(base), ...], ...]}"""
import sys, json, os, traceback
sys.path.insert(0, os.environ.get('POLAR_REPO', '/repo'))


def main():
    req = json.load(sys.stdin)
    import sympy
    ns = {k: getattr(sympy, k) for k in dir(sympy) if not k.startswith('_')}
    from invariants.exponent_lattice import ExponentLattice
    out = []
    for bases in req['lists']:
        bs = [eval(b, dict(ns)) for b in bases]
        try:
            basis = ExponentLattice(bs).compute_basis()
            out.append(dict(basis=[[int(x) for x in v] for v in basis]))
        except Exception as ex:
            out.append(dict(error=type(ex).__name__, msg=str(ex)[:200], tb=traceback.format_exc()[-600:]))
    return dict(results=out)


if __name__ == '__main__':
    try: o = main()
    except Exception as ex: o = dict(probe_error=repr(ex), tb=traceback.format_exc()[-2000:])
    sys.stdout.write('\n@@JSON@@' + json.dumps(o))
