"""probe: runs the REAL Polar (imported from $POLAR_REPO at call time) on one source text and dumps what the judge
needs as JSON (expressions as sympy srepr).  Runs under /venv/bin/python; one process per request, hard wall-clock
budget enforced by the caller.

request: {src, goals: [monomial text], settings: {name: value}, want: [...], snapshots: bool,
          solver: {numeric_roots, numeric_croots, numeric_eps, force_cyclic}}
"""
import sys, json, os, traceback
sys.path.insert(0, os.environ.get('POLAR_REPO', '/repo'))
sys.setrecursionlimit(10000)


def sre(e):
    import sympy
    from sympy import srepr, sympify
    try:
        return srepr(sympify(e))
    except Exception:
        return srepr(sympify(str(e)))


def cond_json(c):
    from program.condition import Atom, And, Or, Not, TrueCond, FalseCond
    g = bool(getattr(c, 'is_loop_guard', False))
    if isinstance(c, Atom): return dict(t='atom', l=sre(c.poly1), op=c.cop, r=sre(c.poly2), guard=g)
    if isinstance(c, And): return dict(t='and', a=cond_json(c.cond1), b=cond_json(c.cond2), guard=g)
    if isinstance(c, Or): return dict(t='or', a=cond_json(c.cond1), b=cond_json(c.cond2), guard=g)
    if isinstance(c, Not): return dict(t='not', a=cond_json(c.cond), guard=g)
    if isinstance(c, TrueCond): return dict(t='true', guard=g)
    if isinstance(c, FalseCond): return dict(t='false', guard=g)
    raise TypeError(type(c))


def dist_json(d):
    out = dict(name=type(d).__name__, params={})
    for k, v in vars(d).items():
        if isinstance(v, (list, tuple)): out['params'][k] = [sre(x) for x in v]
        else: out['params'][k] = sre(v)
    return out


def stmt_json(s):
    from program.assignment import PolyAssignment, DistAssignment, FunctionalAssignment
    from program.ifstatem import IfStatem
    if isinstance(s, IfStatem):
        return dict(t='if', conds=[cond_json(c) for c in s.conditions], branches=[[stmt_json(x) for x in b] for b in s.branches],
                    els=[stmt_json(x) for x in s.else_branch] if s.else_branch else None, mutex=bool(s.mutually_exclusive))
    d = dict(var=str(s.variable), cond=cond_json(s.condition), default=str(s.default))
    if isinstance(s, PolyAssignment):
        d.update(t='poly', polys=[sre(p) for p in s.polynomials], probs=[sre(p) for p in s.probabilities])
    elif isinstance(s, DistAssignment):
        d.update(t='dist', dist=dist_json(s.distribution))
    elif isinstance(s, FunctionalAssignment):
        d.update(t='func', func=s.func, arg=sre(s.argument))
    else: raise TypeError(type(s))
    return d


def program_json(p):
    from program.type import Finite
    return dict(initial=[stmt_json(s) for s in p.initial], guard=cond_json(p.loop_guard), body=[stmt_json(s) for s in p.loop_body],
                types={str(v): [sre(x) for x in t.values] for v, t in p.typedefs.items() if isinstance(t, Finite)},
                variables=sorted(map(str, p.variables)), original_variables=sorted(map(str, p.original_variables)),
                symbols=sorted(map(str, getattr(p, 'symbols', []))),
                original_loop_guard=cond_json(p.original_loop_guard) if getattr(p, 'original_loop_guard', None) is not None else None,
                abstracted={str(k): cond_json(v) for k, v in getattr(p, 'abstracted_const_store', {}).items()},
                is_probabilistic=bool(p.is_probabilistic))


def err_json(ex):
    tb = traceback.extract_tb(ex.__traceback__)
    where = [f'{os.path.relpath(f.filename, os.environ.get("POLAR_REPO", "/repo"))}:{f.name}' for f in tb][-4:]
    return dict(error=type(ex).__name__, msg=str(ex)[:300], where=where)


def main():
    req = json.load(sys.stdin)
    out = dict(goals={}, passes=[])
    import settings
    for k, v in (req.get('settings') or {}).items():
        setattr(settings, k, v)
    from inputparser import Parser
    from program import normalize_program
    import program.transformer as T
    from recurrences import RecBuilder
    from recurrences.solver import RecurrenceSolver
    from symengine.lib.symengine_wrapper import sympify as ssy
    try:
        prog = Parser().parse_string(req['src'])
    except Exception as ex:
        out['parse_error'] = err_json(ex)
        return out
    if req.get('snapshots'):
        out['passes'].append(dict(name='parsed', program=program_json(prog)))
        # wrap every Transformer.execute that the REAL normalize_program calls, so a re-ordered list is observed as it is
        from program.transformer.transformer import Transformer
        for name in dir(T):
            cls = getattr(T, name)
            if isinstance(cls, type) and issubclass(cls, Transformer) and cls.__module__.startswith('program.transformer.') \
                    and cls.__name__ not in ('Transformer', 'TreeTransformer'):
                def mk(cls, orig):
                    def execute(self, program):
                        r = orig(self, program)
                        out['passes'].append(dict(name=cls.__name__, program=program_json(r)))
                        return r
                    return execute
                cls.execute = mk(cls, cls.execute)
    try:
        prog = normalize_program(prog)
    except Exception as ex:
        out['normalize_error'] = err_json(ex)
        return out
    out['program'] = program_json(prog)
    rb = RecBuilder(prog)
    so = req.get('solver') or {}
    solvers = {}
    for g in req.get('goals', []):
        rec = {}
        try:
            monom = ssy(g)
            r = rb.get_recurrences(monom)
            rec['rec'] = {sre(k): sre(v) for k, v in r.recurrence_dict.items()}
            rec['init'] = {sre(k): sre(v) for k, v in r.init_values_dict.items()}
            rec['monomials'] = [sre(m) for m in r.monomials]
            rec['matrix'] = [[sre(r.recurrence_matrix[i, j]) for j in range(r.recurrence_matrix.shape[1])] for i in range(r.recurrence_matrix.shape[0])]
            rec['vector'] = [sre(x) for x in r.init_values_vector]
            rec['is_acyclic'] = bool(r.is_acyclic)
            if 'nosolve' not in (req.get('want') or []):
                s = RecurrenceSolver(r, so.get('numeric_roots'), so.get('numeric_croots'), so.get('numeric_eps'), bool(so.get('force_cyclic')))
                sol = s.get(monom)
                rec['solver'] = type(s.solver).__name__
                rec['closed_form'] = sre(sol)
                rec['is_exact'] = bool(s.is_exact)
                try:
                    from utils import is_solvable
                    rec['classified_solvable'] = bool(is_solvable(monom, prog))        # what --solvability_check would decide for this goal
                except Exception as ex_:
                    rec['classified_solvable'] = None
                if 'pretty' in (req.get('want') or []):
                    from cli.common import prettify_piecewise
                    rec['pretty'] = prettify_piecewise(sol)
        except Exception as ex:
            rec['error'] = err_json(ex)
        out['goals'][g] = rec
    return out


if __name__ == "__main__":
    try:
        o = main()
    except Exception as ex:
        o = dict(probe_error=err_json(ex), tb=traceback.format_exc()[-2000:])
    sys.stdout.write('\n@@JSON@@' + json.dumps(o))
