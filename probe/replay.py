"""probe-side replayer (runs under /venv/bin/python, imports the real Polar from $POLAR_REPO).
Builds concrete Polar objects from the input values of a solver counter-model, runs the REAL function and evaluates the
executable twin of the postcondition. Only input values are taken from the model (uninterpreted functions are recomputed)."""
import sys, json, os
sys.path.insert(0, os.environ.get('POLAR_REPO', '/repo'))
from fractions import Fraction


def fr(x):
    if isinstance(x, bool): return x
    if isinstance(x, int): return Fraction(x)
    if isinstance(x, str):
        try: return Fraction(x)
        except Exception: return Fraction(float(x.rstrip('?'))).limit_denominator(10**6)
    return x


def se(x):
    from symengine.lib.symengine_wrapper import sympify, Rational
    f = fr(x)
    return Rational(f.numerator, f.denominator)


def r_poly_get_moment(m):
    from program.assignment import PolyAssignment
    polys = [se(p) for p in m['polys']]; probs = [se(p) for p in m['probs']]
    n = min(len(polys), len(probs)); polys, probs = polys[:n], probs[:n]
    a = PolyAssignment('x', polys or [0], probs or [0]) if n == 0 else PolyAssignment('x', polys, probs)
    if n == 0: a.polynomials, a.probabilities = [], []
    from symengine.lib.symengine_wrapper import Symbol
    a.default = se(m['d'])
    k = max(0, int(m['k'])); c, rest, d = fr(m['c']), fr(m['rest']), fr(m['d'])
    got = a.get_moment(k, None, se(m['c']), se(m['rest']))
    exp = c * sum(fr(q) * fr(p) ** k for p, q in zip(m['polys'][:n], m['probs'][:n])) * rest + (1 - c) * d ** k * rest
    return dict(observed=str(got), expected=str(exp), violates=Fraction(str(got)) != exp)


def r_atom_to_arithm(m):
    from program.condition import Atom
    from program.type import Finite
    from symengine.lib.symengine_wrapper import Symbol
    vals = [fr(v) for v in m['values']]
    x, value = fr(m['x']), fr(m['value'])
    if x not in vals or not m.get('is_normalized', True) or not m.get('type_is_Finite', True):
        return dict(violates=False, detail='model outside the native precondition')

    class P:
        def get_type(self, v): return Finite([se(v) for v in vals], 'x')
    at = Atom('x', '==', se(value))
    if not at.is_normalized():
        return dict(violates=False, detail='non-integer value: atom not normalised natively')
    got = at.to_arithm(P()).subs({Symbol('x'): se(x)})
    exp = 1 if x == value else 0
    return dict(observed=str(got), expected=str(exp), violates=Fraction(str(got)) != exp)


def r_evaluate_cop(m):
    from utils import evaluate_cop
    l, r, cop = fr(m['left']), fr(m['right']), m['cop']
    sem = {'==': l == r, '<=': l <= r, '>=': l >= r, '<': l < r, '>': l > r}
    try:
        got = evaluate_cop(float(l), cop, float(r))
    except RuntimeError:
        return dict(observed='RuntimeError', expected='refusal' if cop not in sem else str(sem[cop]), violates=cop in sem)
    return dict(observed=str(got), expected=str(sem.get(cop)), violates=(cop not in sem) or bool(got) != sem[cop])


def r_get_valid_values(m):
    from utils import get_valid_values
    vals = {fr(v) for v in m['possible_values']}; c = fr(m['integer']); cop = m['cop']
    sem = {'==': lambda v: v == c, '<=': lambda v: v <= c, '>=': lambda v: v >= c, '<': lambda v: v < c, '>': lambda v: v > c}
    try:
        got = get_valid_values({se(v) for v in vals}, cop, se(c))
    except RuntimeError:
        return dict(observed='RuntimeError', violates=cop in sem)
    if cop not in sem: return dict(observed=str(got), violates=True)
    exp = {v for v in vals if sem[cop](v)}
    return dict(observed=sorted(map(str, got)), expected=sorted(map(str, exp)), violates={Fraction(str(g)) for g in got} != exp)


def main():
    req = json.load(sys.stdin)
    kind = req['replay']['kind']
    fn = globals().get('r_' + kind)
    if fn is None:
        out = dict(status='no-replayer', violates=False)
    else:
        try:
            out = fn(req['model']); out['status'] = 'ok'
        except Exception as ex:
            out = dict(status='replay-error', violates=False, detail=repr(ex))
    sys.stdout.write('\n@@JSON@@' + json.dumps(out, default=str))


main()
