"""probe-side replayer (runs under /venv/bin/python, imports the real Polar from $POLAR_REPO).
Builds concrete Polar objects from the input values of a solver counter-model, runs the REAL function and evaluates the
executable twin of the postcondition. Only input values are taken from the model (uninterpreted functions are recomputed)."""
import sys, json, os
sys.path.insert(0, os.environ.get('POLAR_REPO', '/repo'))
from fractions import Fraction


def fr(x):
    if isinstance(x, bool): return x
    if isinstance(x, int): return Fraction(x)
    if isinstance(x, str):
        try: return Fraction(x)
        except Exception: return Fraction(float(x.rstrip('?'))).limit_denominator(10**6)
    return x


def se(x):
    from symengine.lib.symengine_wrapper import sympify, Rational
    f = fr(x)
    return Rational(f.numerator, f.denominator)


def r_poly_get_moment(m):
    from program.assignment import PolyAssignment
    polys = [se(p) for p in m['polys']]; probs = [se(p) for p in m['probs']]
    n = min(len(polys), len(probs)); polys, probs = polys[:n], probs[:n]
    a = PolyAssignment('x', polys or [0], probs or [0]) if n == 0 else PolyAssignment('x', polys, probs)
    if n == 0: a.polynomials, a.probabilities = [], []
    from symengine.lib.symengine_wrapper import Symbol
    a.default = se(m['d'])
    k = max(0, int(m['k'])); c, rest, d = fr(m['c']), fr(m['rest']), fr(m['d'])
    got = a.get_moment(k, None, se(m['c']), se(m['rest']))
    exp = c * sum(fr(q) * fr(p) ** k for p, q in zip(m['polys'][:n], m['probs'][:n])) * rest + (1 - c) * d ** k * rest
    return dict(observed=str(got), expected=str(exp), violates=Fraction(str(got)) != exp)


def r_atom_to_arithm(m):
    from program.condition import Atom
    from program.type import Finite
    from symengine.lib.symengine_wrapper import Symbol
    vals = [fr(v) for v in m['values']]
    x, value = fr(m['x']), fr(m['value'])
    if x not in vals or not m.get('is_normalized', True) or not m.get('type_is_Finite', True):
        return dict(violates=False, detail='model outside the native precondition')

    class P:
        def get_type(self, v): return Finite([se(v) for v in vals], 'x')
    at = Atom('x', '==', se(value))
    if not at.is_normalized():
        return dict(violates=False, detail='non-integer value: atom not normalised natively')
    got = at.to_arithm(P()).subs({Symbol('x'): se(x)})
    exp = 1 if x == value else 0
    return dict(observed=str(got), expected=str(exp), violates=Fraction(str(got)) != exp)


def r_evaluate_cop(m):
    from utils import evaluate_cop
    l, r, cop = fr(m['left']), fr(m['right']), m['cop']
    sem = {'==': l == r, '<=': l <= r, '>=': l >= r, '<': l < r, '>': l > r}
    try:
        got = evaluate_cop(float(l), cop, float(r))
    except RuntimeError:
        return dict(observed='RuntimeError', expected='refusal' if cop not in sem else str(sem[cop]), violates=cop in sem)
    return dict(observed=str(got), expected=str(sem.get(cop)), violates=(cop not in sem) or bool(got) != sem[cop])


def r_get_valid_values(m):
    from utils import get_valid_values
    vals = {fr(v) for v in m['possible_values']}; c = fr(m['integer']); cop = m['cop']
    sem = {'==': lambda v: v == c, '<=': lambda v: v <= c, '>=': lambda v: v >= c, '<': lambda v: v < c, '>': lambda v: v > c}
    try:
        got = get_valid_values({se(v) for v in vals}, cop, se(c))
    except RuntimeError:
        return dict(observed='RuntimeError', violates=cop in sem)
    if cop not in sem: return dict(observed=str(got), violates=True)
    exp = {v for v in vals if sem[cop](v)}
    return dict(observed=sorted(map(str, got)), expected=sorted(map(str, exp)), violates={Fraction(str(g)) for g in got} != exp)


def _conds():
    from program.condition import TrueCond, FalseCond
    return {True: TrueCond, False: FalseCond}


def r_binary_to_arithm(m, cls='Or'):
    """finite complete replay: all truth combinations of the two sub-conditions (TrueCond/FalseCond children)"""
    import program.condition as pc
    C = _conds(); klass = getattr(pc, cls)
    for b1 in (True, False):
        for b2 in (True, False):
            got = klass(C[b1](), C[b2]()).to_arithm(None)
            exp = int((b1 or b2) if cls == 'Or' else (b1 and b2))
            if Fraction(str(got)) != exp:
                return dict(observed=f'{cls}({b1},{b2}).to_arithm = {got}', expected=str(exp), violates=True)
    return dict(violates=False, detail='all four truth combinations agree natively')


def r_or_to_arithm(m): return r_binary_to_arithm(m, 'Or')
def r_and_to_arithm(m): return r_binary_to_arithm(m, 'And')


def r_not_to_arithm(m):
    from program.condition import Not
    C = _conds()
    for b in (True, False):
        got = Not(C[b]()).to_arithm(None)
        if Fraction(str(got)) != int(not b): return dict(observed=f'Not({b}).to_arithm = {got}', expected=str(int(not b)), violates=True)
    return dict(violates=False)


def r_binary_evaluate(m, cls='Or'):
    import program.condition as pc
    C = _conds(); klass = getattr(pc, cls)
    for b1 in (True, False):
        for b2 in (True, False):
            got = bool(klass(C[b1](), C[b2]()).evaluate({}))
            exp = (b1 or b2) if cls == 'Or' else (b1 and b2)
            if got != exp: return dict(observed=f'{cls}({b1},{b2}).evaluate = {got}', expected=str(exp), violates=True)
    return dict(violates=False)


def r_or_evaluate(m): return r_binary_evaluate(m, 'Or')
def r_and_evaluate(m): return r_binary_evaluate(m, 'And')


def r_and_implied(m):
    """is_implied_by_loop_guard of And(c1, c2) where exactly one conjunct carries the guard mark must be False"""
    from program.condition import And, Atom
    for mark1, mark2 in ((True, False), (False, True)):
        a, b = Atom('g', '==', 1), Atom('c', '==', 1)
        a.is_loop_guard, b.is_loop_guard = mark1, mark2
        got = And(a, b).is_implied_by_loop_guard()
        if got: return dict(observed=f'And(marked={mark1}, marked={mark2}).is_implied_by_loop_guard() = True', expected='False (the unmarked conjunct is not implied by the guard)', violates=True)
    return dict(violates=False)


def r_comb(m):
    import math
    from utils import comb
    n, k = int(m['n']), int(m['k'])
    if n < 0 or k < 0 or n > 3000: return dict(violates=False, detail='model outside the native domain')
    got = comb(n, k); exp = math.comb(n, k)
    return dict(observed=str(got), expected=str(exp), violates=got != exp)


def r_bernoulli_moment(m):
    from program.distribution import Bernoulli
    k = max(0, int(m['k'])); p = se(m['p'])
    got = Bernoulli([p]).get_moment(k); exp = 1 if k == 0 else fr(m['p'])
    return dict(observed=str(got), expected=str(exp), violates=Fraction(str(got)) != exp)


def r_uniform_moment(m):
    from program.distribution import Uniform
    a, b, k = fr(m['a']), fr(m['b']), max(0, int(m['k']))
    if a == b: return dict(violates=False, detail='outside precondition')
    got = Uniform([se(a), se(b)]).get_moment(k)
    exp = sum(a ** i * b ** (k - i) for i in range(k + 1)) / (k + 1)
    return dict(observed=str(got), expected=str(exp), violates=Fraction(str(got)) != exp)


def r_exponential_moment(m):
    import math
    from program.distribution import Exponential
    l, k = fr(m['lamb']), max(0, int(m['k']))
    if l == 0 or k > 60: return dict(violates=False, detail='outside precondition')
    got = Exponential([se(l)]).get_moment(k); exp = Fraction(math.factorial(k)) / l ** k
    return dict(observed=str(got), expected=str(exp), violates=Fraction(str(got)) != exp)


def r_categorical_moment(m):
    from program.distribution import Categorical
    ps = [fr(x) for x in m['probabilities']]; k = max(0, int(m['k']))
    if not ps: return dict(violates=False, detail='outside precondition')
    d = Categorical.__new__(Categorical); d.probabilities = [se(x) for x in ps]
    got = d.get_moment(k); exp = sum((Fraction(i) ** k if (i or k) else 1) * p for i, p in enumerate(ps))
    return dict(observed=str(got), expected=str(exp), violates=Fraction(str(got)) != exp)


def _dist_rewrite(kind):
    """native search guided by the template witness: real DistTransformer on every combination of printed parameter forms"""
    import itertools, sympy as sp
    from program.assignment import DistAssignment
    from program.distribution import Normal, Uniform, Laplace, Exponential
    from program.transformer.dist_transformer import DistTransformer
    forms = ['p', '-p', 'p + q', 'p - q', '-p - q', 'p*q', '-p*q', 'p/q', 'p**2', 'p*q + s']
    cls, npar, meth, want = {
        'normal': (Normal, 2, '_transform_normal', lambda ps, u: ps[0] + sp.sqrt(ps[1]) * u),
        'uniform': (Uniform, 2, '_transform_uniform', lambda ps, u: ps[0] + (ps[1] - ps[0]) * u),
        'laplace': (Laplace, 2, '_transform_laplace', lambda ps, u: ps[0] + u),
        'exponential': (Exponential, 1, '_transform_exponential', None)}[kind]
    tried = 0
    for combo in itertools.product(forms, repeat=npar):
        texts = [c.replace('p', f'p{i}').replace('q', f'q{i}').replace('s', f's{i}') for i, c in enumerate(combo)]
        if kind == 'exponential': texts = ['1/(' + texts[0] + ')']
        try:
            res = getattr(DistTransformer(), meth)(DistAssignment('x', cls(list(texts))))
        except Exception as ex:
            continue
        if not isinstance(res, tuple): continue
        tried += 1
        d, pa = res
        u = sp.Symbol(str(d.variable))
        got = sp.sympify(str(pa.polynomials[0]))
        ps = [sp.sympify(t) for t in texts]
        if kind == 'exponential':
            num = sp.sympify(str(d.distribution.get_params()[0])) if hasattr(d.distribution, 'get_params') else sp.sympify(str(d.distribution.lamb))
            exp = u * num / ps[0]           # x = den*u with u ~ Exponential(num) and lamb = num/den
        else: exp = want(ps, u)
        if sp.simplify(got - exp) != 0:
            return dict(observed=f'{kind}({", ".join(texts)}) rewritten to {pa.variable} = {got} with {d}', expected=str(exp), violates=True, input=texts)
    return dict(observed=f'{tried} parameter forms agree', expected='', violates=False)


def r_uniform_rewrite(m): return _dist_rewrite('uniform')
def r_normal_rewrite(m): return _dist_rewrite('normal')
def r_laplace_rewrite(m): return _dist_rewrite('laplace')
def r_exponential_rewrite(m): return _dist_rewrite('exponential')


def r_categorical_implicit_last(m):
    """the real parser on choices with an omitted last probability: k = 1..3 stated probabilities in several spellings"""
    import sympy as sp, settings
    from inputparser import Parser
    old = settings.transform_categoricals
    settings.transform_categoricals = False
    try:
        for k in (1, 2, 3):
            for ptxt in ('1/8', '0.125', '(1/8)', 'p', 'p/2', '2*p'):
                src = 'x = 0\nwhile true:\n    x = ' + ' '.join(f'{i} {{{ptxt}}}' for i in range(k)) + f' {k}\nend'
                try: prog = Parser().parse_string(src)
                except Exception as ex: continue
                a = [b for b in prog.loop_body if str(b.variable) == 'x'][0]
                got = sp.sympify(str(a.probabilities[-1]))
                exp = 1 - k * sp.sympify(ptxt)
                if sp.simplify(got - exp) != 0:
                    return dict(observed=f'{src!r}: last probability {got}', expected=str(exp), violates=True, input=src)
    finally:
        settings.transform_categoricals = old
    return dict(observed='all spellings agree', expected='', violates=False)


def r_trig_moment_at_zero(m):
    """the real get_trig_moment on a distribution whose closed-form cf is piecewise at 0, for powers whose expansion has a constant term"""
    import sympy as sp, mpmath as mp
    from program.distribution import Beta
    from program.assignment.functional_assignment import FunctionalAssignment
    FunctionalAssignment.exact_func_moments = True
    x = sp.Symbol('x')
    for p, s_, c in ((1, 2, 0), (2, 0, 2), (1, 1, 1), (2, 2, 2)):
        pw = {k: v for k, v in (('Id', p), ('Sin', s_), ('Cos', c)) if v}
        got = sp.N(sp.sympify(str(FunctionalAssignment.get_trig_moment(Beta(['2', '3']), pw))), 30)
        exp = mp.quad(lambda t: t ** p * mp.sin(t) ** s_ * mp.cos(t) ** c * 12 * t * (1 - t) ** 2, [0, 1])
        if abs(complex(got) - complex(exp)) > 1e-12:
            return dict(observed=f'Beta(2,3), powers {pw}: {got}', expected=str(exp), violates=True, input=pw)
    from program.distribution import DiscreteUniform
    for pw in ({'Sin': 2}, {'Sin': 1, 'Cos': 1}, {'Id': 1, 'Sin': 1}, {'Id': 2, 'Cos': 1}):
        p, s_, c = pw.get('Id', 0), pw.get('Sin', 0), pw.get('Cos', 0)
        exp = sum(mp.mpf(v) ** p * mp.sin(v) ** s_ * mp.cos(v) ** c for v in (-1, 0, 1, 2)) / 4
        try:
            got = sp.N(sp.sympify(str(FunctionalAssignment.get_trig_moment(DiscreteUniform(['-1', '2']), pw))), 30)
        except Exception as ex:
            return dict(observed=f'DiscreteUniform(-1,2), powers {pw}: {type(ex).__name__}: {ex}', expected=str(exp), violates=True, input=pw)
        if abs(complex(got) - complex(exp)) > 1e-12:
            return dict(observed=f'DiscreteUniform(-1,2), powers {pw}: {got}', expected=str(exp), violates=True, input=pw)
    return dict(observed='all agree with quadrature / exact sums', expected='', violates=False)


def r_exponent_lattice_rational(m):
    """the real ExponentLattice on rational lists with negative bases: every basis vector is a relation, and a known relation is generated"""
    import sympy as sp
    from invariants.exponent_lattice import ExponentLattice
    cases = [(['-1', '2'], [2, 0]), (['-2', '4'], [2, -1]), (['-2', '-2'], [1, -1]), (['2', '-3', '6'], [2, 2, -2]), (['-4', '2', '-1/2'], [1, -1, 1]),
             (['3', '-1', '9'], [2, 0, -1]), (['-1/2', '-2', '5'], [1, 1, 0])]
    for bases, rel in cases:
        bs = [sp.Rational(b) for b in bases]
        basis = ExponentLattice(bs).compute_basis()
        basis = [[int(x) for x in v] for v in basis]
        for v in basis:
            if sp.prod([b ** e for b, e in zip(bs, v)]) != 1:
                return dict(observed=f'bases {bases}: basis vector {v} is not a relation', expected='product 1', violates=True, input=bases)
        if basis:
            B = sp.Matrix(basis).T
            try:
                sol = B.solve(sp.Matrix(rel)) if B.rows == B.cols else sp.linsolve((B, sp.Matrix(rel)))
                sols = [sol] if not isinstance(sol, sp.sets.sets.Set) else list(sol)
            except Exception:
                sols = []
            ok = any(all(sp.Rational(x).q == 1 for x in s0) for s0 in sols) if sols else False
        else: ok = False
        if not ok:
            return dict(observed=f'bases {bases}: relation {rel} is not generated by {basis}', expected='an integer combination', violates=True, input=bases)
    return dict(observed='all lists: relations hold and the known relation is generated', expected='', violates=False)


def _closed_form(src, goal):
    """E(goal) of the real pipeline as a sympy expression in n (general part) plus special values"""
    import sympy as sp
    from inputparser import Parser
    from program.transformer import normalize_program
    from recurrences import RecBuilder
    from recurrences.solver import RecurrenceSolver
    prog = normalize_program(Parser().parse_string(src))
    rb = RecBuilder(prog)
    mono = sp.sympify(goal)
    from symengine.lib.symengine_wrapper import sympify as ssym
    recs = rb.get_recurrences(ssym(goal))
    solver = RecurrenceSolver(recs, False, False, 0)
    return sp.sympify(str(solver.get(ssym(goal))))


def r_constants_inlining(m):
    """the real pipeline on programs whose initial block defines variables from other variables / assigns a variable twice"""
    import sympy as sp
    n = sp.Symbol('n', integer=True)
    cases = [("x = 0\ny = x + 1\nz = 0\nwhile true:\n    x = x + 1\n    z = z + y\nend", 'z', lambda k: k),
             ("x = 0\ny = 5\ny = x + 1\nz = 0\nwhile true:\n    x = x + 1\n    z = z + y\nend", 'z', lambda k: k),
             ("x = 0\ny = 5\nu = y + x\ny = 7\nz = 0\nwhile true:\n    x = x + 1\n    z = z + u + y\nend", 'z', lambda k: 12 * k),
             ("x = 2\ny = 3\nz = 0\nwhile true:\n    x = x + 1\n    z = z + y\nend", 'z', lambda k: 3 * k)]
    for src, goal, want in cases:
        try:
            cf = _closed_form(src, goal)
        except Exception as ex:
            return dict(observed=f'{src!r}: E({goal}) raised {type(ex).__name__}: {ex}', expected='a closed form', violates=True, input=src)
        for k in range(1, 5):
            v = cf.subs({sp.Symbol('n'): k, n: k})
            if isinstance(v, sp.Piecewise) or v.has(sp.Piecewise): v = sp.piecewise_fold(v)
            if sp.simplify(v - want(k)) != 0:
                return dict(observed=f'{src!r}: E({goal}) at n={k} is {v}', expected=str(want(k)), violates=True, input=src)
    return dict(observed='all programs agree', expected='', violates=False)


def main():
    req = json.load(sys.stdin)
    kind = req['replay']['kind']
    fn = globals().get('r_' + kind)
    if fn is None:
        out = dict(status='no-replayer', violates=False)
    else:
        try:
            out = fn(req['model']); out['status'] = 'ok'
        except Exception as ex:
            out = dict(status='replay-error', violates=False, detail=repr(ex))
    sys.stdout.write('\n@@JSON@@' + json.dumps(out, default=str))


main()
