"""probe: several analyses in ONE process (as polar.py does for several benchmark files).
request: {sequence: [{src, goals, settings?}], report: index}  -> results of every step"""
import sys, json, os, traceback
sys.path.insert(0, os.environ.get('POLAR_REPO', '/repo'))
sys.path.insert(0, os.path.dirname(os.path.abspath(__file__)))


def main():
    req = json.load(sys.stdin)
    from probe_common import sre
    from inputparser import Parser
    from program import normalize_program
    from program.type import Finite
    from recurrences import RecBuilder
    from recurrences.solver import RecurrenceSolver
    from symengine.lib.symengine_wrapper import sympify as ssy
    import settings
    out = []
    for step in req['sequence']:
        for k, v in (step.get('settings') or {}).items(): setattr(settings, k, v)
        o = dict(goals={})
        try:
            prog = normalize_program(Parser().parse_string(step['src']))
            o['types'] = {str(v): sorted(sre(x) for x in t.values) for v, t in prog.typedefs.items() if isinstance(t, Finite)}
            o['original_variables'] = sorted(map(str, prog.original_variables))
            rb = RecBuilder(prog); solvers = {}
            from cli.common import get_moment
            import argparse
            args = argparse.Namespace(solvability_check=False)
            for g in step['goals']:
                try:
                    m, ex = get_moment(ssy(g), solvers, rb, args, prog)
                    o['goals'][g] = dict(cf=sre(m), is_exact=bool(ex))
                except Exception as ex:
                    o['goals'][g] = dict(error=type(ex).__name__)
        except Exception as ex:
            o['error'] = type(ex).__name__ + ': ' + str(ex)[:200]
        out.append(o)
    return dict(steps=out)


if __name__ == '__main__':
    try: o = main()
    except Exception as ex: o = dict(probe_error=repr(ex), tb=traceback.format_exc()[-2000:])
    sys.stdout.write('\n@@JSON@@' + json.dumps(o))
