"""probe: moments given termination / after loop through the REAL cli.common functions.
request: {src, monomials: [text], order: k}"""
import sys, json, os, traceback, argparse
sys.path.insert(0, os.environ.get('POLAR_REPO', '/repo'))


def sre(e):
    from sympy import srepr, sympify
    return srepr(sympify(e))


def main():
    req = json.load(sys.stdin)
    from inputparser import Parser
    from program import normalize_program
    from recurrences import RecBuilder
    from cli.common import get_moment_given_termination, transform_to_after_loop, get_all_moments_given_termination
    from utils import raw_moments_to_cumulants, raw_moments_to_centrals
    from symengine.lib.symengine_wrapper import sympify as ssy
    args = argparse.Namespace(solvability_check=False, at_n=-1, after_loop=True)
    out = dict(goals={})
    try:
        prog = normalize_program(Parser().parse_string(req['src']))
    except Exception as ex:
        return dict(normalize_error=dict(error=type(ex).__name__, msg=str(ex)[:300]))
    from probe_common import cond_json
    out['original_loop_guard'] = cond_json(prog.original_loop_guard)
    rb = RecBuilder(prog); solvers = {}
    for mtxt in req['monomials']:
        o = {}
        try:
            m = ssy(mtxt)
            seq, exact = get_moment_given_termination(m, solvers, rb, args, prog)
            o['given_termination'] = sre(seq); o['is_exact'] = bool(exact)
            o['after_loop'] = sre(transform_to_after_loop(seq))
            k = req.get('order', 0)
            if k:
                moments, ex2 = get_all_moments_given_termination(m, k, solvers, rb, args, prog)
                cen = raw_moments_to_centrals(dict(moments)); cum = raw_moments_to_cumulants(dict(moments))
                o['central_after'] = {str(i): sre(transform_to_after_loop(v)) for i, v in cen.items()}
                o['cumulant_after'] = {str(i): sre(transform_to_after_loop(v)) for i, v in cum.items()}
        except Exception as ex:
            o['error'] = dict(error=type(ex).__name__, msg=str(ex)[:300], tb=traceback.format_exc()[-500:])
        out['goals'][mtxt] = o
    return out


if __name__ == '__main__':
    sys.path.insert(0, os.path.dirname(os.path.abspath(__file__)))
    try: o = main()
    except Exception as ex: o = dict(probe_error=repr(ex), tb=traceback.format_exc()[-2000:])
    sys.stdout.write('\n@@JSON@@' + json.dumps(o))
