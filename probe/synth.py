"""probe: the REAL UnsolvInvSynthesizer.synth_inv and SolvLoopSynthesizer.synth_loop.
request: {src, candidates:[names], deg, ks:[null|int], loop: bool}"""
import sys, json, os, traceback
sys.path.insert(0, os.environ.get('POLAR_REPO', '/repo'))
sys.path.insert(0, os.path.dirname(os.path.abspath(__file__)))


def main():
    req = json.load(sys.stdin)
    from probe_common import sre
    from analyze import program_json
    from inputparser import Parser
    from program import normalize_program
    from unsolvable_analysis import UnsolvInvSynthesizer, SolvLoopSynthesizer
    from symengine.lib.symengine_wrapper import sympify as ssy
    out = dict(inv={}, loop=None)
    prog = normalize_program(Parser().parse_string(req['src']))
    out['defective'] = sorted(map(str, prog.defective_variables)); out['effective'] = sorted(map(str, prog.effective_variables))
    out['original_variables'] = sorted(map(str, prog.original_variables))
    vs = [ssy(v) for v in req['candidates']]
    for k in req['ks']:
        try:
            sols = UnsolvInvSynthesizer.synth_inv(vs, req['deg'], prog, k)
            out['inv'][str(k)] = None if sols is None else [[sre(s[0]), sre(s[1])] for s in sols]
        except Exception as ex:
            out['inv'][str(k)] = dict(error=type(ex).__name__, msg=str(ex)[:200])
    if req.get('loop'):
        try:
            prog2 = normalize_program(Parser().parse_string(req['src']))
            invs, progs = SolvLoopSynthesizer.synth_loop(vs, req['deg'], prog2)
            out['loop'] = dict(invariants=[[sre(i[0]), sre(i[1])] for i in (invs or [])], programs=[program_json(p) for p in progs])
        except Exception as ex:
            out['loop'] = dict(error=type(ex).__name__, msg=str(ex)[:200], tb=traceback.format_exc()[-600:])
    return out


if __name__ == '__main__':
    try: o = main()
    except Exception as ex: o = dict(probe_error=repr(ex), tb=traceback.format_exc()[-2000:])
    sys.stdout.write('\n@@JSON@@' + json.dumps(o))
