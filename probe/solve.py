"""probe: run the REAL Recurrences + RecurrenceSolver on a given linear system.
request: {monomials: [names], rec: {name: srepr(expr)}, init: {name: srepr(expr)}, params: [names],
          variants: [{numeric_roots, numeric_croots, numeric_eps, force_cyclic}]}"""
import sys, json, os, traceback
sys.path.insert(0, os.environ.get('POLAR_REPO', '/repo'))


def main():
    req = json.load(sys.stdin)
    import sympy
    from sympy import srepr, Symbol
    ns = {k: getattr(sympy, k) for k in dir(sympy) if not k.startswith('_')}
    ev = lambda t: eval(t, dict(ns))
    from recurrences import Recurrences
    from recurrences.solver import RecurrenceSolver

    class Prog:
        symbols = {Symbol(p) for p in req.get('params', [])}
    out = dict(variants=[])
    for var in req['variants']:
        rec = {Symbol(k): ev(v) for k, v in req['rec'].items()}
        init = {Symbol(k): ev(v) for k, v in req['init'].items()}
        o = dict(variant=var, sols={})
        try:
            r = Recurrences(rec, init, Prog())
            o['is_acyclic'] = bool(r.is_acyclic)
            o['matrix'] = [[srepr(r.recurrence_matrix[i, j]) for j in range(r.recurrence_matrix.shape[1])] for i in range(r.recurrence_matrix.shape[0])]
            o['vector'] = [srepr(x) for x in r.init_values_vector]
            o['monomials'] = [str(m) for m in r.monomials]
            s = RecurrenceSolver(r, var.get('numeric_roots'), var.get('numeric_croots'), var.get('numeric_eps'), bool(var.get('force_cyclic')))
            o['solver'] = type(s.solver).__name__
            for m in req['monomials']:
                try:
                    o['sols'][m] = dict(cf=srepr(s.get(Symbol(m))))
                except Exception as ex:
                    o['sols'][m] = dict(error=type(ex).__name__, msg=str(ex)[:200])
            o['is_exact'] = bool(s.is_exact)
        except Exception as ex:
            o['error'] = type(ex).__name__; o['msg'] = str(ex)[:300]; o['tb'] = traceback.format_exc()[-800:]
        out['variants'].append(o)
    return out


if __name__ == '__main__':
    try: o = main()
    except Exception as ex: o = dict(probe_error=repr(ex), tb=traceback.format_exc()[-2000:])
    sys.stdout.write('\n@@JSON@@' + json.dumps(o))
