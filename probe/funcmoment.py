"""probe: the REAL FunctionalAssignment.get_func_moment / get_const_moment. request: {cases:[{family, params, powers:{Id,Sin,Cos,Exp}, exact}], consts:[{func,arg,k,exact}]}"""
import sys, json, os, traceback
sys.path.insert(0, os.environ.get('POLAR_REPO', '/repo'))


def main():
    req = json.load(sys.stdin)
    from sympy import srepr, sympify
    from program.distribution import distribution_factory
    from program.assignment import FunctionalAssignment
    out = dict(cases=[], consts=[])
    for c in req.get('cases', []):
        FunctionalAssignment.exact_func_moments = bool(c.get('exact'))
        try:
            d = distribution_factory(c['family'], c['params'])
            r = FunctionalAssignment.get_func_moment(d, dict(c['powers']))
            out['cases'].append(dict(value=srepr(sympify(r))))
        except Exception as ex:
            out['cases'].append(dict(error=type(ex).__name__, msg=str(ex)[:200]))
    for c in req.get('consts', []):
        FunctionalAssignment.exact_func_moments = bool(c.get('exact'))
        try:
            fa = FunctionalAssignment('v', c['func'], c['arg'])
            out['consts'].append(dict(value=srepr(sympify(fa.get_const_moment(c['k'])))))
        except Exception as ex:
            out['consts'].append(dict(error=type(ex).__name__, msg=str(ex)[:200]))
    return out


if __name__ == '__main__':
    try: o = main()
    except Exception as ex: o = dict(probe_error=repr(ex), tb=traceback.format_exc()[-2000:])
    sys.stdout.write('\n@@JSON@@' + json.dumps(o))
