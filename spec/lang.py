"""Reference semantics of the Polar loop language, written from the property statements and the README
(never from Polar's code): own parser, exact distribution transformer, own moment tables.

Runs in the judge (python3-vt, sympy 1.14); never imports Polar.

Semantics (C01): statements in order; first matching if/elif/else branch; every draw and probabilistic choice is
independent; simultaneous assignment evaluates all right-hand sides in the old state; once the loop guard is false
the state is frozen; an uninitialised variable v has the symbolic initial value v0.
"""
import ast, re, itertools
from fractions import Fraction
import sympy as sp


class Unsupported(Exception):
    """The reference semantics cannot decide this program (outside the oracle's reach): the item is skipped."""


class SpecParseError(Exception):
    pass


# ----------------------------------------------------------------------------------------------
# AST
# ----------------------------------------------------------------------------------------------
class Assign:      # targets: [str], rhss: [Rhs]  (simultaneous if more than one)
    def __init__(self, targets, rhss): self.targets, self.rhss = targets, rhss
class Poly:        # expr
    def __init__(self, e): self.e = e
class Choice:      # exprs, probs (same length; last prob possibly implicit already filled)
    def __init__(self, es, ps): self.es, self.ps = es, ps
class Draw:        # dist name, params (sympy exprs)
    def __init__(self, name, params): self.name, self.params = name, params
class Func:        # Sin/Cos/Exp of variable or number
    def __init__(self, name, arg): self.name, self.arg = name, arg
class If:          # conds [Cond], branches [[stmt]], els [stmt] | None
    def __init__(self, conds, branches, els): self.conds, self.branches, self.els = conds, branches, els
class Program:
    def __init__(self, types, initial, guard, body): self.types, self.initial, self.guard, self.body = types, initial, guard, body


# ----------------------------------------------------------------------------------------------
# arithmetic: Python precedence through Python's own expression grammar, exact rationals
# ----------------------------------------------------------------------------------------------
def parse_arith(text):
    text = text.strip()
    if not text: raise SpecParseError('empty arithmetic expression')
    try:
        node = ast.parse(text, mode='eval').body
    except SyntaxError as ex:
        raise SpecParseError(f'bad arithmetic: {text!r}') from ex
    return _arith(node)


def _arith(n):
    if isinstance(n, ast.BinOp):
        a, b = _arith(n.left), _arith(n.right)
        if isinstance(n.op, ast.Add): return a + b
        if isinstance(n.op, ast.Sub): return a - b
        if isinstance(n.op, ast.Mult): return a * b
        if isinstance(n.op, ast.Div): return a / b
        if isinstance(n.op, ast.Pow): return a ** b
        raise SpecParseError('operator')
    if isinstance(n, ast.UnaryOp):
        if isinstance(n.op, ast.USub): return -_arith(n.operand)
        if isinstance(n.op, ast.UAdd): return _arith(n.operand)
        raise SpecParseError('unary operator')
    if isinstance(n, ast.Constant):
        if isinstance(n.value, bool): raise SpecParseError('bool')
        if isinstance(n.value, int): return sp.Integer(n.value)
        if isinstance(n.value, float):
            # decimal literal: exact rational of the decimal text
            return sp.Rational(str(Fraction(repr(n.value)) if 'e' not in repr(n.value) else Fraction(n.value)))
        raise SpecParseError('constant')
    if isinstance(n, ast.Name):
        return sp.Symbol(n.id)
    raise SpecParseError(f'arithmetic node {type(n).__name__}')


# ----------------------------------------------------------------------------------------------
# conditions
# ----------------------------------------------------------------------------------------------
class Cond:
    pass
class CAtom(Cond):
    def __init__(self, l, op, r): self.l, self.op, self.r = l, op, r
class CBool(Cond):
    def __init__(self, v): self.v = v
class CNot(Cond):
    def __init__(self, c): self.c = c
class CAnd(Cond):
    def __init__(self, a, b): self.a, self.b = a, b
class COr(Cond):
    def __init__(self, a, b): self.a, self.b = a, b


_COPS = ['<=', '>=', '==', '/=', '<', '>']


def _split_top(s, seps):
    """split s at top-level (paren depth 0) occurrences of any separator; returns [(piece, sep_before)]"""
    out, depth, i, last, cur_sep = [], 0, 0, 0, None
    while i < len(s):
        ch = s[i]
        if ch == '(': depth += 1
        elif ch == ')': depth -= 1
        elif depth == 0:
            for sep in seps:
                if s.startswith(sep, i):
                    out.append((s[last:i], cur_sep)); cur_sep = sep; i += len(sep); last = i; break
            else:
                i += 1; continue
            continue
        i += 1
    out.append((s[last:], cur_sep))
    return out


def parse_cond(s):
    s = s.strip()
    parts = _split_top(s, ['&&', '||'])
    if len(parts) > 1:
        ops = {sep for _, sep in parts[1:]}
        if len(ops) > 1:
            raise Unsupported('mixed && / || without parentheses (grammar leaves the grouping to the LALR tables)')
        cs = [parse_cond(p) for p, _ in parts]
        op = ops.pop()
        # the grouping of a homogeneous chain does not matter semantically
        r = cs[0]
        for c in cs[1:]: r = CAnd(r, c) if op == '&&' else COr(r, c)
        return r
    if s.startswith('!'):
        rest = s[1:].strip()
        if not (rest.startswith('(') and _matching(rest) == len(rest) - 1): raise SpecParseError('! needs parentheses')
        return CNot(parse_cond(rest[1:-1]))
    if s == 'true': return CBool(True)
    if s == 'false': return CBool(False)
    # atom or parenthesised condition
    at = _split_top(s, _COPS)
    if len(at) == 2:
        return CAtom(parse_arith(at[0][0]), at[1][1], parse_arith(at[1][0]))
    if len(at) == 1 and s.startswith('(') and _matching(s) == len(s) - 1:
        return parse_cond(s[1:-1])
    raise SpecParseError(f'bad condition {s!r}')


def _matching(s):
    d = 0
    for i, ch in enumerate(s):
        if ch == '(': d += 1
        elif ch == ')':
            d -= 1
            if d == 0: return i
    return -1


# ----------------------------------------------------------------------------------------------
# statements / program
# ----------------------------------------------------------------------------------------------
_DIST = re.compile(r'^([A-Z][A-Za-z0-9_]*)\s*\((.*)\)$', re.S)


def _strip_comment(line):
    i = line.find('#')
    return line if i < 0 else line[:i]


def parse_rhs(text):
    text = text.strip()
    m = _DIST.match(text)
    if m and _matching(text[text.index('('):]) == len(text[text.index('('):]) - 1:
        name, args = m.group(1), m.group(2).strip()
        if name in ('Sin', 'Cos', 'Exp'):
            return Func(name, parse_arith(args))
        params = [parse_arith(a) for a, _ in _split_top(args, [','])] if args else []
        return Draw(name, params)
    if '{' in text:
        pieces = re.split(r'\{([^{}]*)\}', text)
        es = [parse_arith(p) for p in pieces[0::2] if p.strip()]
        ps = [parse_arith(p) for p in pieces[1::2]]
        if len(ps) == len(es) - 1: ps.append(1 - sum(ps))
        if len(ps) != len(es): raise SpecParseError('choice arity')
        return Choice(es, ps)
    return Poly(parse_arith(text))


def parse_program(src):
    lines = [_strip_comment(l).strip() for l in src.replace('\r', '').split('\n')]
    lines = [l for l in lines if l]
    pos = [0]

    def peek(): return lines[pos[0]] if pos[0] < len(lines) else None
    def nxt(): pos[0] += 1; return lines[pos[0] - 1]

    types = {}
    if peek() == 'types':
        nxt()
        while peek() != 'end':
            l = nxt()
            var, t = l.split(':', 1)
            m = _DIST.match(t.strip())
            if not m: raise SpecParseError('typedef')
            ps = [parse_arith(a) for a, _ in _split_top(m.group(2), [','])]
            if m.group(1) == 'Finite': vals = set(ps)
            elif m.group(1) == 'FiniteRange': vals = {sp.Integer(i) for i in range(int(ps[0]), int(ps[1]) + 1)}
            else: raise SpecParseError('type name')
            types[var.strip()] = vals
        nxt()

    def stmts(stop):
        out = []
        while True:
            l = peek()
            if l is None: raise SpecParseError('unexpected end of text')
            head = l.split(' ', 1)[0].rstrip(':')
            if any(l == s or l.startswith(s + ' ') or l.startswith(s + ':') for s in stop): return out
            if head == 'if':
                out.append(ifstmt())
            else:
                out.append(assign(nxt()))

    def cond_of(l, kw):
        if not l.endswith(':'): raise SpecParseError(f'{kw} without colon')
        return parse_cond(l[len(kw):-1])

    def ifstmt():
        conds, branches, els = [cond_of(nxt(), 'if')], [], None
        branches.append(stmts(['elif', 'else', 'end']))
        while True:
            l = nxt()
            if l == 'end': break
            if l.startswith('elif'):
                conds.append(cond_of(l, 'elif')); branches.append(stmts(['elif', 'else', 'end']))
            elif l.startswith('else'):
                if l.replace(' ', '') != 'else:': raise SpecParseError('else')
                els = stmts(['end'])
            else: raise SpecParseError('if structure')
        return If(conds, branches, els)

    def assign(l):
        if '=' not in l: raise SpecParseError(f'not an assignment: {l!r}')
        # first '=' that is not part of a comparison (assignments never contain comparisons)
        lhs, rhs = l.split('=', 1)
        targets = [t.strip() for t in lhs.split(',')]
        for t in targets:
            if not re.fullmatch(r'[A-Za-z_][A-Za-z0-9_]*', t): raise SpecParseError(f'bad target {t!r}')
        rhss = [parse_rhs(p) for p, _ in _split_top(rhs, [','])] if len(targets) > 1 else [parse_rhs(rhs)]
        if len(rhss) != len(targets): raise SpecParseError('simultaneous assignment arity')
        return Assign(targets, rhss)

    initial = stmts(['while'])
    w = nxt()
    if not w.endswith(':'): raise SpecParseError('while without colon')
    guard = parse_cond(w[len('while'):-1])
    body = stmts(['end'])
    nxt()
    if peek() is not None: raise SpecParseError('text after end')
    return Program(types, initial, guard, body)


# ----------------------------------------------------------------------------------------------
# moment tables, written from the defining integrals / sums  (cross-checked numerically in spec/selftest.py)
# ----------------------------------------------------------------------------------------------
def std_moment(kind, k, params=()):
    """k-th raw moment of the standardised atom."""
    k = int(k)
    if k == 0: return sp.Integer(1)
    if kind == 'N01':            # standard normal: 0 for odd k, (k-1)!! for even k
        return sp.Integer(0) if k % 2 else sp.factorial2(k - 1)
    if kind == 'U01':            # uniform(0,1): 1/(k+1)
        return sp.Rational(1, k + 1)
    if kind == 'L01':            # Laplace(0,1): k! for even k, 0 for odd
        return sp.Integer(0) if k % 2 else sp.factorial(k)
    if kind == 'E1':             # Exp(1): k!
        return sp.factorial(k)
    if kind == 'Gamma':          # shape a, scale theta: theta^k * a(a+1)...(a+k-1)
        a, th = params
        return th ** k * sp.prod([a + i for i in range(k)])
    if kind == 'Beta':           # Beta(a,b) * scale
        a, b, sc = params
        return sc ** k * sp.prod([(a + i) / (a + b + i) for i in range(k)])
    if kind == 'TruncNormal':
        mu, s2, lo, hi = params
        return trunc_normal_moment(mu, s2, lo, hi, k)
    raise Unsupported(f'moment of {kind}')


def trunc_normal_moment(mu, s2, lo, hi, k):
    """numerical (mpmath quadrature, 30 digits): TruncNormal is float-based by design (C08 tolerance)"""
    import mpmath as mp
    mp.mp.dps = 30
    mu, s, lo, hi = [mp.mpf(sp.N(x, 30)) for x in (mu, sp.sqrt(s2), lo, hi)]
    pdf = lambda x: mp.exp(-((x - mu) / s) ** 2 / 2)
    z = mp.quad(pdf, [lo, mu, hi] if lo < mu < hi else [lo, hi])
    m = mp.quad(lambda x: x ** k * pdf(x), [lo, mu, hi] if lo < mu < hi else [lo, hi])
    return sp.Float(m / z, 25)


class Atom:
    n = itertools.count()

    def __init__(self, kind, params=()):
        self.kind, self.params = kind, tuple(params)
        self.sym = sp.Symbol(f'D{next(Atom.n)}_{kind}', real=True)


def draw_value(name, params, atoms):
    """returns either a list [(value, prob)] (discrete) or an expression in a fresh atom (continuous)."""
    P = params
    def need(n):
        if len(P) != n: raise Unsupported(f'{name} with {len(P)} parameters')
    if name == 'Bernoulli':
        need(1); return [(sp.Integer(0), 1 - P[0]), (sp.Integer(1), P[0])]
    if name == 'Categorical':
        if not P: raise Unsupported('Categorical()')
        return [(sp.Integer(i), p) for i, p in enumerate(P)]
    if name == 'DiscreteUniform':
        need(2)
        if not (P[0].is_Integer and P[1].is_Integer): raise Unsupported('DiscreteUniform with non-integer bounds')
        vs = list(range(int(P[0]), int(P[1]) + 1))
        if not vs: raise Unsupported('empty DiscreteUniform')
        return [(sp.Integer(v), sp.Rational(1, len(vs))) for v in vs]
    def atom(kind, params=()):
        a = Atom(kind, params); atoms[a.sym] = a; return a.sym
    if name == 'Normal':
        need(2); return P[0] + sp.sqrt(P[1]) * atom('N01')
    if name == 'Uniform':
        need(2); return P[0] + (P[1] - P[0]) * atom('U01')
    if name == 'Laplace':
        need(2); return P[0] + P[1] * atom('L01')
    if name == 'DistExp':
        need(1); return atom('E1') / P[0]
    if name == 'Gamma':
        need(2); return atom('Gamma', (P[0], P[1]))
    if name == 'Beta':
        if len(P) == 2: return atom('Beta', (P[0], P[1], sp.Integer(1)))
        need(3); return atom('Beta', (P[0], P[1], P[2]))
    if name == 'TruncNormal':
        need(4); return atom('TruncNormal', tuple(P))
    raise Unsupported(f'distribution {name}')


# ----------------------------------------------------------------------------------------------
# exact distribution transformer
# ----------------------------------------------------------------------------------------------
class World:
    __slots__ = ('p', 'st')
    def __init__(self, p, st): self.p, self.st = p, st


class Sem:
    def __init__(self, prog, max_worlds=20000):
        self.prog = prog
        self.atoms = {}            # atom symbol -> Atom
        self.max_worlds = max_worlds
        self.func_atoms = {}       # (func, atom/number) handled symbolically: Sin/Cos/Exp of a draw

    # -- evaluation helpers
    def val(self, e, st):
        fs = e.free_symbols
        if not fs: return e
        return sp.expand(e.xreplace({s: self.read(s, st) for s in fs}))

    def read(self, s, st):
        if s in st: return st[s]
        if s.name in self.vars: return sp.Symbol(s.name + '0')     # uninitialised program variable: symbolic initial value
        return s                                                     # symbolic parameter

    def holds(self, c, st):
        if isinstance(c, CBool): return c.v
        if isinstance(c, CNot): return not self.holds(c.c, st)
        if isinstance(c, CAnd): return self.holds(c.a, st) and self.holds(c.b, st)
        if isinstance(c, COr): return self.holds(c.a, st) or self.holds(c.b, st)
        l, r = self.val(c.l, st), self.val(c.r, st)
        d = sp.simplify(l - r) if (l - r).free_symbols else (l - r)
        if d.free_symbols or not d.is_number:
            raise Unsupported(f'condition {c.l} {c.op} {c.r} is not decided by the state')
        if d.is_real is False: raise Unsupported('complex comparison')
        if c.op == '==': return d == 0
        if c.op == '/=': return d != 0
        return {'<=': d <= 0, '>=': d >= 0, '<': d < 0, '>': d > 0}[c.op] == True

    # -- statements
    def exec_block(self, stmts, worlds):
        for s in stmts:
            worlds = self.exec_stmt(s, worlds)
            if len(worlds) > self.max_worlds: raise Unsupported('too many worlds')
        return worlds

    def exec_stmt(self, s, worlds):
        out = []
        if isinstance(s, If):
            rest = worlds
            for cnd, br in zip(s.conds, s.branches):
                yes = [w for w in rest if self.holds(cnd, w.st)]
                rest = [w for w in rest if not self.holds(cnd, w.st)]
                if yes: out += self.exec_block(br, yes)
            if s.els is not None and rest: out += self.exec_block(s.els, rest)
            else: out += rest
            return merge(out)
        for w in worlds:
            # all right-hand sides are evaluated in the old state (simultaneous assignment)
            alts = [(w.p, {})]
            for t, rhs in zip(s.targets, s.rhss):
                new = []
                for p, upd in alts:
                    for v, q in self.rhs_outcomes(rhs, w.st):
                        pq = sp.expand(p * q)
                        if pq == 0: continue
                        u = dict(upd); u[sp.Symbol(t)] = v; new.append((pq, u))
                alts = new
            for p, upd in alts:
                st = dict(w.st); st.update(upd); out.append(World(p, st))
        return merge(out)

    def rhs_outcomes(self, rhs, st):
        if isinstance(rhs, Poly): return [(self.val(rhs.e, st), sp.Integer(1))]
        if isinstance(rhs, Choice):
            return [(self.val(e, st), self.val(p, st)) for e, p in zip(rhs.es, rhs.ps)]
        if isinstance(rhs, Draw):
            params = [self.val(p, st) for p in rhs.params]
            r = draw_value(rhs.name, params, self.atoms)
            if isinstance(r, list): return r
            return [(sp.expand(r), sp.Integer(1))]
        if isinstance(rhs, Func):
            a = self.val(rhs.arg, st)
            f = {'Sin': sp.sin, 'Cos': sp.cos, 'Exp': sp.exp}[rhs.name]
            if a.is_number: return [(f(a), sp.Integer(1))]
            raise Unsupported('Sin/Cos/Exp of a random variable (handled by the C13 oracle)')
        raise Unsupported('rhs')

    # -- whole program
    @property
    def vars(self):
        if not hasattr(self, '_vars'):
            vs = set()
            def walk(ss):
                for s in ss:
                    if isinstance(s, If):
                        for b in s.branches: walk(b)
                        if s.els: walk(s.els)
                    else: vs.update(s.targets)
            walk(self.prog.initial); walk(self.prog.body)
            self._vars = vs
        return self._vars

    def init_worlds(self):
        return self.exec_block(self.prog.initial, [World(sp.Integer(1), {})])

    def iterate(self, worlds):
        run = [w for w in worlds if self.holds(self.prog.guard, w.st)]
        stay = [w for w in worlds if not self.holds(self.prog.guard, w.st)]
        return merge(stay + (self.exec_block(self.prog.body, run) if run else []))

    def expect(self, mono, worlds):
        """E[mono(state)] over the worlds; continuous atoms integrated out by independence."""
        tot = sp.Integer(0)
        for w in worlds:
            v = mono.xreplace({s: self.read(s, w.st) for s in mono.free_symbols})
            tot += w.p * self.atom_expect(sp.expand(v))
        return sp.expand(tot)

    def atom_expect(self, e):
        ats = [a for a in e.free_symbols if a in self.atoms]
        if not ats: return e
        try:
            poly = sp.Poly(e, *ats)
        except sp.PolynomialError as ex:
            raise Unsupported('value is not polynomial in the drawn atoms') from ex
        tot = sp.Integer(0)
        for mon, co in poly.terms():
            t = co
            for a, k in zip(ats, mon):
                if k: t *= std_moment(self.atoms[a].kind, k, self.atoms[a].params)
            tot += t
        return sp.expand(tot)


def merge(worlds):
    """merge worlds with identical states (exact syntactic equality of expanded values)."""
    acc = {}
    for w in worlds:
        key = tuple(sorted(((k.name, str(v)) for k, v in w.st.items())))
        if key in acc: acc[key].p = sp.expand(acc[key].p + w.p)
        else: acc[key] = World(w.p, w.st)
    return [w for w in acc.values() if w.p != 0]


def expected_values(src, monos, nmax, max_worlds=20000, seconds=None, nmin=2):
    """E_spec: {mono: [E(mono after n iterations) for n in 0..N]} by exact path enumeration.
    With a time budget, N is the largest n <= nmax reached within the budget (iterative deepening); fewer than nmin
    iterations within the budget => Unsupported (item skipped)."""
    import time
    t0 = time.time()
    prog = parse_program(src) if isinstance(src, str) else src
    sem = Sem(prog, max_worlds)
    ws = sem.init_worlds()
    out = {m: [] for m in monos}
    for n in range(nmax + 1):
        for m in monos: out[m].append(sem.expect(m, ws))
        if n < nmax:
            if seconds is not None and time.time() - t0 > seconds and n >= nmin: break
            try:
                ws = sem.iterate(ws)
            except Unsupported as ex:
                if 'too many worlds' in str(ex) and n >= nmin: break
                raise
    return out
