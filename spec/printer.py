"""Prints spec-ASTs (spec/lang.py) back to source text in different spellings that denote the same loop (C19)."""
import sympy as sp
from spec import lang


def num(e, style):
    return str(e)


def arith(e, style):
    s = sp.sstr(e, order=None)
    if style.get('decimal'):
        # replace rational literals p/q by decimals where exact
        import re

        def rep(m):
            p, q = int(m.group(1)), int(m.group(2))
            f = sp.Rational(p, q)
            d = q
            while d % 2 == 0: d //= 2
            while d % 5 == 0: d //= 5
            if d != 1: return m.group(0)
            digits = 0; x = f
            while x.q != 1 and digits < 12: x *= 10; digits += 1
            return f'{float(f):.{digits}f}'
        s = re.sub(r'(?<![\w.])(\d+)/(\d+)(?![\w.])', rep, s)
    if style.get('spaces'):
        s = s.replace('+', '  +  ').replace('*  *', '**')
    if style.get('parens'):
        s = f'(({s}))'
    return s


def rhs(r, style):
    if isinstance(r, lang.Poly): return arith(r.e, style)
    if isinstance(r, lang.Choice):
        parts = []
        ps = list(r.ps)
        explicit = style.get('explicit_last', False)
        for i, (e, p) in enumerate(zip(r.es, ps)):
            parts.append(arith(e, style))
            if i < len(ps) - 1 or explicit: parts.append('{' + arith(p, {k: v for k, v in style.items() if k != 'parens'}) + '}')
        return ' '.join(parts)
    if isinstance(r, lang.Draw): return f"{r.name}({', '.join(arith(p, {k: v for k, v in style.items() if k != 'parens'}) for p in r.params)})"
    if isinstance(r, lang.Func): return f'{r.name}({r.arg})'
    raise TypeError(r)


def cond(c, style):
    if isinstance(c, lang.CBool): return 'true' if c.v else 'false'
    if isinstance(c, lang.CNot): return f'!({cond(c.c, style)})'
    if isinstance(c, lang.CAnd): return f'({cond(c.a, style)}) && ({cond(c.b, style)})'
    if isinstance(c, lang.COr): return f'({cond(c.a, style)}) || ({cond(c.b, style)})'
    st2 = {k: v for k, v in style.items() if k not in ('parens',)}
    return f'{arith(c.l, st2)} {c.op} {arith(c.r, st2)}'


def stmts(ss, style, ind, counter):
    out = []
    pad = (style.get('indent', '    ')) * ind
    for s in ss:
        if isinstance(s, lang.If):
            if style.get('nested_else') and len(s.conds) > 1:
                # if A: S1 elif B: S2 ... else: Sn   ==>   if A: S1 else: (if B: S2 ... end) end
                inner = lang.If(s.conds[1:], s.branches[1:], s.els)
                out.append(f'{pad}if {cond(s.conds[0], style)}:')
                out += stmts(s.branches[0], style, ind + 1, counter)
                out.append(f'{pad}else:')
                out += stmts([inner], style, ind + 1, counter)
                out.append(f'{pad}end')
                continue
            for i, (c, b) in enumerate(zip(s.conds, s.branches)):
                out.append(f"{pad}{'if' if i == 0 else 'elif'} {cond(c, style)}:")
                out += stmts(b, style, ind + 1, counter)
            if s.els is not None:
                out.append(f'{pad}else:'); out += stmts(s.els, style, ind + 1, counter)
            out.append(f'{pad}end')
        else:
            if len(s.targets) > 1 and style.get('temporaries'):
                tmps = []
                for r in s.rhss:
                    counter[0] += 1; t = f'tmpv{counter[0]}'; tmps.append(t)
                    out.append(f'{pad}{t} = {rhs(r, style)}')
                for t, tv in zip(s.targets, tmps): out.append(f'{pad}{t} = {tv}')
            else:
                out.append(f"{pad}{', '.join(s.targets)} = {', '.join(rhs(r, style) for r in s.rhss)}")
        if style.get('comments'): out[-1] += '   # a comment'
        if style.get('blank'): out.append('')
    return out


def program(p, style=None):
    style = style or {}
    counter = [0]
    out = []
    if p.types:
        out.append('types')
        for v, vals in p.types.items(): out.append(f"    {v} : Finite({', '.join(str(x) for x in sorted(vals, key=lambda x: float(x)))})")
        out.append('end')
    out += stmts(p.initial, style, 0, counter)
    if style.get('comments'): out.append('# the loop')
    out.append(f'while {cond(p.guard, style)}:')
    out += stmts(p.body, style, 1, counter)
    out.append('end')
    if style.get('blank'): out = [''] + out + ['', '']
    return '\n'.join(out) + '\n'


STYLES = {
    'canonical': {},
    'whitespace': {'spaces': True, 'indent': '  '},
    'tabs': {'indent': '\t'},
    'comments_blank': {'comments': True, 'blank': True},
    'parens': {'parens': True},
    'decimal': {'decimal': True},
    'explicit_last': {'explicit_last': True},
    'temporaries': {'temporaries': True},
    'nested_else': {'nested_else': True},
    'all': {'spaces': True, 'comments': True, 'blank': True, 'decimal': True, 'explicit_last': True, 'temporaries': True, 'nested_else': True},
}
