"""Reference semantics for Polar's *serialised* programs (probe JSON): IfStatem trees and flat guarded assignments
`v = rhs | cond : default`.  Used for the one-step identity (C03), type soundness (C05) and pass-by-pass
equivalence (C02).  Meaning of a guarded assignment: if cond holds in the current state, v := rhs, else v := default.
"""
import itertools
import sympy as sp
from spec.lang import Unsupported, World, merge, draw_value, std_moment, Atom
from vcheck.judge import from_srepr

_cache = {}


def E(text):
    if text not in _cache: _cache[text] = from_srepr(text)
    return _cache[text]


class FlatSem:
    def __init__(self, pj, max_worlds=5000, variables=None):
        self.p = pj
        self.atoms = {}
        self.max_worlds = max_worlds
        self.vars = set(variables if variables is not None else pj.get('variables', []))
        self.trace = None           # optional callback(var, value) after every assignment

    def read(self, s, st):
        if s in st: return st[s]
        if s.name in self.vars: return sp.Symbol(s.name + '0')
        return s

    def val(self, e, st):
        fs = e.free_symbols
        if not fs: return e
        return sp.expand(e.xreplace({s: self.read(s, st) for s in fs}))

    def holds(self, c, st):
        t = c['t']
        if t == 'true': return True
        if t == 'false': return False
        if t == 'not': return not self.holds(c['a'], st)
        if t == 'and': return self.holds(c['a'], st) and self.holds(c['b'], st)
        if t == 'or': return self.holds(c['a'], st) or self.holds(c['b'], st)
        d = self.val(E(c['l']) - E(c['r']), st)
        if d.free_symbols:
            d = sp.simplify(d)
        if d.free_symbols or not d.is_number:
            raise Unsupported(f"condition {c['l']} {c['op']} {c['r']} not decided by the state")
        op = c['op']
        if op == '==': return d == 0
        if op == '/=': return d != 0
        return bool({'<=': d <= 0, '>=': d >= 0, '<': d < 0, '>': d > 0}[op])

    def outcomes(self, a, st):
        t = a['t']
        if t == 'poly':
            return [(self.val(E(p), st), self.val(E(q), st)) for p, q in zip(a['polys'], a['probs'])]
        if t == 'dist':
            name, ps = a['dist']['name'], a['dist']['params']
            g = lambda k: self.val(E(ps[k]), st)
            if name == 'Bernoulli': r = draw_value('Bernoulli', [g('p')], self.atoms)
            elif name == 'Categorical': r = draw_value('Categorical', [self.val(E(x), st) for x in ps['probabilities']], self.atoms)
            elif name == 'DiscreteUniform':
                vs = [E(x) for x in ps['values']]
                r = [(v, sp.Rational(1, len(vs))) for v in vs]
            elif name == 'Normal': r = draw_value('Normal', [g('mu'), g('sigma2')], self.atoms)
            elif name == 'Uniform': r = draw_value('Uniform', [g('a'), g('b')], self.atoms)
            elif name == 'Laplace': r = draw_value('Laplace', [g('mu'), g('b')], self.atoms)
            elif name == 'Exponential': r = draw_value('DistExp', [g('lamb')], self.atoms)
            elif name == 'Gamma': r = draw_value('Gamma', [g('k'), g('theta')], self.atoms)
            elif name == 'Beta': r = draw_value('Beta', [g('a'), g('b'), g('scale')], self.atoms)
            elif name == 'TruncNormal': raise Unsupported('TruncNormal in flat semantics')
            else: raise Unsupported(f'distribution {name}')
            if isinstance(r, list): return r
            return [(sp.expand(r), sp.Integer(1))]
        if t == 'func':
            arg = self.val(E(a['arg']), st)
            f = {'Sin': sp.sin, 'Cos': sp.cos, 'Exp': sp.exp}[a['func']]
            if arg.is_number: return [(f(arg), sp.Integer(1))]
            raise Unsupported('functional assignment of a random variable')
        raise Unsupported(t)

    def exec_stmt(self, s, worlds):
        out = []
        if s['t'] == 'if':
            rest = worlds
            for cnd, br in zip(s['conds'], s['branches']):
                yes = [w for w in rest if self.holds(cnd, w.st)]
                if not s.get('mutex'):
                    rest = [w for w in rest if not self.holds(cnd, w.st)]
                else:
                    rest = [w for w in rest if not self.holds(cnd, w.st)]
                if yes: out += self.exec_block(br, yes)
            if s.get('els') and rest: out += self.exec_block(s['els'], rest)
            else: out += rest
            return merge(out)
        v = sp.Symbol(s['var'])
        for w in worlds:
            if self.holds(s['cond'], w.st):
                for val, q in self.outcomes(s, w.st):
                    pq = sp.expand(w.p * q)
                    if pq == 0: continue
                    st = dict(w.st); st[v] = val
                    if self.trace: self.trace(s['var'], val)
                    out.append(World(pq, st))
            else:
                st = dict(w.st); st[v] = self.read(sp.Symbol(s['default']), w.st)
                if self.trace: self.trace(s['var'], st[v])
                out.append(World(w.p, st))
        return merge(out)

    def exec_block(self, stmts, worlds):
        for s in stmts:
            worlds = self.exec_stmt(s, worlds)
            if len(worlds) > self.max_worlds: raise Unsupported('too many worlds')
        return worlds

    def init_worlds(self):
        return self.exec_block(self.p['initial'], [World(sp.Integer(1), {})])

    def iterate(self, worlds):
        g = self.p['guard']
        run = [w for w in worlds if self.holds(g, w.st)]
        stay = [w for w in worlds if not self.holds(g, w.st)]
        return merge(stay + (self.exec_block(self.p['body'], run) if run else []))

    def expect(self, mono, worlds):
        tot = sp.Integer(0)
        for w in worlds:
            v = mono.xreplace({s: self.read(s, w.st) for s in mono.free_symbols})
            tot += w.p * self.atom_expect(sp.expand(v))
        return sp.expand(tot)

    def atom_expect(self, e):
        ats = [a for a in e.free_symbols if a in self.atoms]
        if not ats: return e
        try:
            poly = sp.Poly(e, *ats)
        except sp.PolynomialError as ex:
            raise Unsupported('value is not polynomial in the drawn atoms') from ex
        tot = sp.Integer(0)
        for mon, co in poly.terms():
            t = co
            for a, k in zip(ats, mon):
                if k: t *= std_moment(self.atoms[a].kind, k, self.atoms[a].params)
            tot += t
        return sp.expand(tot)


def one_step(pj, mono, pre):
    """E[mono(state after one execution of the flat loop body)] from the (partially symbolic) pre-state `pre`
    (dict Symbol -> value; variables not in pre stay symbolic and denote their own pre-state value)."""
    sem = FlatSem(pj, variables=[])           # unbound variables read as themselves (symbolic pre-state)
    ws = sem.exec_block(pj['body'], [World(sp.Integer(1), dict(pre))])
    return sem.expect(mono, ws)
