"""Family G: program texts inside the documented class (README 'Loop Restrictions'), generated from a seed.

Shape: finite control variables (draws / choices over constants), numeric accumulators updated linearly in themselves and
polynomially in earlier accumulators and in draws (non-linear dependencies acyclic), if/elif/else over finite variables,
probabilistic choice, simultaneous assignment, guards over finite variables, symbolic parameters, uninitialised variables.
"""
import random

CURATED = [
# (name, source, goal variables)
("rw2", """x, y = 0, 0
while true:
    x = x + 1 {1/2} x - 1
    y = y + 1 {1/2} y - 1
end""", ['x', 'y']),
("readme", """x,y = 1,0
while true:
    c1 = Bernoulli(1/2)
    c2 = Bernoulli(1/2)
    if c1 + c2 < 2:
        y = y + 1 {1/2} y - 2 {1/3} y
        g = Normal(y,1)
        x = x + g**2
    end
end""", ['x', 'y']),
("fib", """a, b = 0, 1
while true:
    a, b = b, a + b
end""", ['a', 'b']),
("delay", """y = 0
x = 0
while true:
    x = y
    y = 5
end""", ['x', 'y']),
("delay2", """x = 0
y = 0
z = 3
while true:
    x = y
    y = z
    z = z + 1
end""", ['x', 'y', 'z']),
("guard_support", """x = 5
g = 1
while g == 1:
    x = 1
    x = x + 1
    g = Bernoulli(1/2)
end""", ['x', 'g']),
("guard_geo", """stop = 0
cnt = 0
while stop == 0:
    stop = Bernoulli(1/3)
    cnt = cnt + 1
end""", ['cnt', 'stop']),
("elif3", """c = 0
x = 0
y = 1
while true:
    c = Categorical(1/4, 1/4, 1/2)
    if c == 0:
        x = x + 1
    elif c == 1:
        x = x - y
        y = y + 1
    else:
        x = 2*x
    end
end""", ['x', 'y']),
("reassign_cond", """c = 1
x = 0
while true:
    if c == 1:
        c = Bernoulli(1/2)
        x = x + 1
    else:
        c = 1
        x = x + 3
    end
end""", ['x', 'c']),
("param", """x = x0
while true:
    x = x + 1 {p} x - 1
end""", ['x']),
("param2", """x = 0
y = 1
while true:
    x = a*x + y {p} x
    y = y + b
end""", ['x', 'y']),
("swap", """x, y = 1, 2
while true:
    x, y = y, x + 1
end""", ['x', 'y']),
("uniform_loc", """x = 0
s = 0
while true:
    u = Uniform(x, x + 2)
    s = s + u
    x = x + 1 {1/2} x
end""", ['x', 's']),
("exp_lap", """x = 0
y = 0
while true:
    r = DistExp(2)
    s = Laplace(y, 3)
    x = x + r*s
    y = y + 1
end""", ['x', 'y']),
("gamma_beta", """x = 0
while true:
    g = Gamma(2, 3)
    b = Beta(2, 3)
    x = x + g*b
end""", ['x']),
("du", """x = 0
while true:
    d = DiscreteUniform(1, 4)
    if d > 2:
        x = x + d
    end
end""", ['x']),
("decimal", """x = 0.5
while true:
    x = 0.25*x + 1 {0.3} x
end""", ['x']),
("nested", """f = 0
c = 0
x = 0
while true:
    f = Bernoulli(1/2)
    c = Bernoulli(1/3)
    if f == 1:
        if c == 1:
            x = x + 1
        else:
            x = x + 2
        end
    else:
        x = x - 1
    end
end""", ['x']),
("uninit", """while true:
    x = x + y
    y = y + 1 {1/2} y
end""", ['x', 'y']),
("nilpotent", """a = 1
b = 2
c = 3
while true:
    a = b
    b = c
    c = 0
end""", ['a', 'b', 'c']),
("guard_two", """g = 1
h = 0
x = 0
while g == 1 && h == 0:
    g = Bernoulli(1/2)
    h = Bernoulli(1/4)
    x = x + g + 2*h
end""", ['x', 'g', 'h']),
("const_in_cond", """k = 2
x = 0
c = 0
while true:
    c = Categorical(1/3, 1/3, 1/3)
    if c < k:
        x = x + 1
    end
end""", ['x']),
("halfvals", """x = 0
y = 1/2
while true:
    y = 1/2 {1/2} 3/2
    if y < 1:
        x = x + 1
    end
end""", ['x']),
("square_dep", """x = 0
y = 0
while true:
    y = y + 1 {1/2} y - 1
    x = x + y**2
end""", ['x', 'y']),

("or_overlap", """x = 0
y = 0
z = 1
while true:
    if x == 1 || y == 2:
        z = z + 2 {1/4} z
    else:
        z = z - 1
    end
    x = 1 {1/2} 0
    y = x {1/3} 2 {1/3} 0
end""", ['z', 'x', 'y']),
("not_and", """a = 0
b = 1
s = 0
while true:
    if !(a == 1 && b == 1):
        s = s + 1
    elif a == 1:
        s = s - 1
    else:
        s = 2*s
    end
    a = Bernoulli(1/2)
    b = Bernoulli(1/3)
end""", ['s', 'a', 'b']),
("cond_expr", """x = 0
c = 0
d = 0
while true:
    c = Bernoulli(1/2)
    d = Bernoulli(1/2)
    if c + d < 2:
        x = x + 1
    end
    if c - d == 0:
        x = 2*x
    end
end""", ['x']),
("three_way_overlap", """r = 0
w = 2
l = 1
while true:
    r = Categorical(1/2, 1/4, 1/4)
    if r == 0:
        w = w + 1
    elif r <= 1:
        l = l + w
    else:
        l = l + 1
    end
end""", ['w', 'l']),
("alias_reuse_rhs", """x = 0
y = 1
t = 0
u = 0
while true:
    y = 1 - y {1/3} y
    if y < x + 1:
        t = 1
    else:
        t = 0
    end
    x = 1 - x {1/2} x
    if y < x + 1:
        u = 1
    else:
        u = 0
    end
end""", ['t', 'u', 'x']),
("alias_reuse_lhs", """a = 0
b = 1
s = 0
while true:
    b = Bernoulli(1/2)
    if a + b > 1:
        s = s + 1
    end
    a = 1 - a {1/2} a
    if a + b > 1:
        s = s + 2
    end
    if a + b > 1:
        s = s + 4
    end
end""", ['s', 'a']),
("flip_uninit", "x = 0\nwhile true:\n    y = 1 - y\n    x = x + y\nend", ["x", "y"]),      # D27: sympy summation fails on the whole summand with base -1
("init_from_var", "x = 0\ny = x + 1\nz = 0\nwhile true:\n    x = x + 1\n    z = z + y\nend", ["x", "y", "z"]),      # D28: constant defined from the initial value of a loop variable
("init_from_random", "b = Bernoulli(1/2)\ny = 2*b + 1\nz = 0\nx = 1\nwhile true:\n    x = 2*x\n    z = z + y*x\nend", ["z", "y", "x"]),
("init_twice_typer", "c = 5\nc = 0\ns = 0\nwhile true:\n    if c == 0:\n        s = s + 1\n    end\n    c = c\nend", ["s", "c"]),      # D29: the typer used the first of several initial assignments
("init_twice_const", "x = 0\ny = 5\ny = x + 1\nz = 0\nwhile true:\n    x = x + 1\n    z = z + y\nend", ["z", "y", "x"]),
("init_reassign_between", "x = 0\ny = 5\nu = y + x\ny = 7\nz = 0\nwhile true:\n    x = x + 1\n    z = z + u + y\nend", ["z", "y", "u"]),
("dice_sum_toggle", "t = 0\nwins = 0\nwhile true:\n    d1 = DiscreteUniform(1, 6)\n    d2 = DiscreteUniform(1, 6)\n    if d1 + d2 + t == 8:\n        wins = wins + 1\n    end\n    t = 1 - t\nend", ["wins", "t"]),      # 36 raw combinations, 11 distinct sums: must stay finite-typed
("elif_assigns_earlier_cond_var", "x = 0\ny = 0\nz = 0\nc = 0\nwhile true:\n    c = 1 {1/2} 0\n    if x == 1:\n        y = y + 1\n    elif c == 1:\n        x = 1\n        z = z + 2\n    else:\n        z = z + 1\n    end\nend", ["z", "y", "x"]),      # a later branch assigns a variable of an EARLIER condition, then assigns again
("categorical_zero_prob", "x = 0\ny = 0\nwhile true:\n    x = Categorical(1/2, 0, 1/2)\n    y = x*x\nend", ["y", "x"]),      # a zero probability in a non-last position: the support must keep the index 2
("simult_const_first", "x = 0\ny = 0\ns = 0\nwhile true:\n    b = Bernoulli(1/2)\n    if b == 1:\n        x, y = 0, x\n    else:\n        x = x + 1\n    end\n    s = s + y\nend", ["y", "x", "s"]),      # simultaneous assignment: constant first, then a read of the overwritten variable
("func_prev_value", "z = 0\ns = 1\nwhile true:\n    a = Uniform(0, 1)\n    z = s*a\n    s = Exp(a)\nend", ["s", "z"]),      # z reads the PREVIOUS value of the functional variable s: registrations of the goal s must not leak into the goal z
("real_roots_rational_largest", "x = 0\ny = 1\nz = 0\nwhile true:\n    z = x\n    x = y\n    y = z/4 + y/4 + 2 {1/2} z/4 + y/4\nend", ["x", "y"]),      # characteristic roots 1 and (1 +- sqrt(17))/8: numeric isolation must not be flagged exact
("cycle_with_delay_chain", "x = 1\ny = 2\na = 3\nb = 9\nwhile true:\n    x, y = y + a, x\n    a = b\n    b = 4 {1/2} 6\nend", ["y", "x", "a"]),      # cyclic system whose eigenvalue 0 has a Jordan block of size 2: two beginning values are needed
("nonlinear_chain", "x = 0\ny = 0\nz = 0\nwhile true:\n    x = x + 1 {1/2} x\n    y = y + x**2\n    z = z + y**2\nend", ["z", "y", "x"]),      # two acyclic non-linear dependencies in a chain (README: acceptable): no variable is defective
("d18_uninit_under_guard", """x = 3
c = 0
while c == 1:
    c = Categorical(1/4, 1/4, 1/2)
    r = Bernoulli(1/4)
    x = 2*x
end""", ['r', 'x']),
]


def gen_program(rnd: random.Random, allow_params=True):
    """returns (source text, goal variable names)"""
    lines_init, body = [], []
    nacc = rnd.randint(1, 3)
    accs = ['x', 'y', 'z'][:nacc]
    nfin = rnd.randint(0, 2)
    fins = ['c', 'd'][:nfin]
    params = rnd.sample(['p', 'q'], rnd.randint(0, 1))
    if not allow_params: params = []
    fracs = ['1/2', '1/3', '1/4', '2/3', '3/4', '1/5']
    consts = ['1', '2', '-1', '3', '1/2', '0']

    def prob():
        return params[0] if params and rnd.random() < 0.3 else rnd.choice(fracs)

    # initial values
    for v in accs:
        r = rnd.random()
        if r < 0.6: lines_init.append(f'{v} = {rnd.choice(consts)}')
        elif r < 0.8: lines_init.append(f'{v} = {v}0')
        # else: uninitialised
    for v in fins:
        lines_init.append(f'{v} = {rnd.choice(["0", "1"])}')

    draws = []

    def fin_assign(v):
        r = rnd.random()
        if r < 0.4: return f'{v} = Bernoulli({rnd.choice(fracs)})'
        if r < 0.6: return f'{v} = Categorical(1/4, 1/4, 1/2)'
        if r < 0.75: return f'{v} = DiscreteUniform(0, 2)'
        if r < 0.9: return f'{v} = 0 {{{rnd.choice(fracs)}}} 1'
        return f'{v} = 1 - {v}' if v in [l.split(' ')[0] for l in lines_init] else f'{v} = Bernoulli(1/2)'

    def draw_stmt():
        name = f'r{len(draws)}'
        kind = rnd.choice(['Normal', 'Uniform', 'DistExp', 'Laplace', 'Gamma', 'Beta', 'Bernoulli', 'NormalLoc', 'UniformLoc'])
        loc = rnd.choice(accs)
        text = {'Normal': f'{name} = Normal({rnd.choice(consts)}, {rnd.choice(["1", "2", "4"])})',
                'Uniform': f'{name} = Uniform(0, {rnd.choice(["1", "2", "3"])})',
                'DistExp': f'{name} = DistExp({rnd.choice(["1", "2", "1/2"])})',
                'Laplace': f'{name} = Laplace({rnd.choice(consts)}, {rnd.choice(["1", "2"])})',
                'Gamma': f'{name} = Gamma({rnd.choice(["1", "2", "3"])}, {rnd.choice(["1", "2"])})',
                'Beta': f'{name} = Beta({rnd.choice(["1", "2"])}, {rnd.choice(["1", "3"])})',
                'Bernoulli': f'{name} = Bernoulli({prob()})',
                'NormalLoc': f'{name} = Normal({loc}, 1)',
                'UniformLoc': f'{name} = Uniform({loc}, {loc} + 1)'}[kind]
        draws.append(name)
        return text

    def acc_update(i):
        v = accs[i]
        terms = []
        a = rnd.choice(['', '2*', '1/2*', '-1*', params[0] + '*' if params else ''])
        if rnd.random() < 0.8: terms.append(f'{a}{v}')
        for j in range(i):
            if rnd.random() < 0.4:
                terms.append(rnd.choice([accs[j], f'{accs[j]}**2', f'2*{accs[j]}']))
        for dname in draws:
            if rnd.random() < 0.4:
                terms.append(rnd.choice([dname, f'{dname}**2', f'{dname}*{accs[rnd.randrange(i + 1)]}' if i > 0 and rnd.random() < 0.5 else dname]))
        if rnd.random() < 0.5 or not terms: terms.append(rnd.choice(consts))
        e1 = ' + '.join(terms).replace('+ -', '- ')
        r = rnd.random()
        if r < 0.35:
            return f'{v} = {e1} {{{prob()}}} {v}'
        if r < 0.45:
            return f'{v} = {e1} {{1/4}} {v} + 1 {{1/4}} {v}'
        return f'{v} = {e1}'

    def block(depth, idxs):
        out = []
        for i in idxs:
            if fins and depth < 2 and rnd.random() < 0.35:
                c = rnd.choice(fins)
                op, val = rnd.choice([('==', '0'), ('==', '1'), ('<', '1'), ('>=', '1')])
                inner = block(depth + 1, [i])
                cond = f'{c} {op} {val}'
                if len(fins) > 1 and rnd.random() < 0.35:
                    c2 = [f for f in fins if f != c][0]
                    cond = rnd.choice([f'{cond} || {c2} == 1', f'{cond} && {c2} == 0', f'!({cond} && {c2} == 1)', f'{c} + {c2} < 2'])
                s = [f'if {cond}:'] + ['    ' + l for l in inner]
                r = rnd.random()
                if r < 0.3:
                    s += [f'elif {c} == {rnd.choice(["1", "2"])}:'] + ['    ' + l for l in block(depth + 1, [i])]
                if r < 0.6:
                    s += ['else:'] + ['    ' + l for l in block(depth + 1, [i])]
                s.append('end')
                out += s
            else:
                out.append(acc_update(i))
        return out

    for v in fins: body.append(fin_assign(v))
    for _ in range(rnd.randint(0, 2)): body.append(draw_stmt())
    body += block(0, list(range(nacc)))
    if nacc >= 2 and rnd.random() < 0.15:
        body.append(f'{accs[0]}, {accs[1]} = {accs[1]}, {accs[0]}')
    guard = 'true'
    if fins and rnd.random() < 0.3:
        guard = f'{fins[0]} == {rnd.choice(["0", "1"])}'
    if guard != 'true':
        # known finding D18 (uninitialised variable assigned only under a non-trivial guard): the family keeps clear of that class,
        # it is represented by one curated program instead (d18_uninit_under_guard)
        have = {l.split(' ')[0] for l in lines_init}
        for v in accs + draws:
            if v not in have: lines_init.append(f'{v} = 0')
    src = '\n'.join(lines_init + [f'while {guard}:'] + ['    ' + l for l in body] + ['end'])
    return src, accs + fins


def family(seed, n, allow_params=True):
    rnd = random.Random(seed)
    out = []
    rnd2 = random.Random(seed * 7919 + 13)          # separate stream: the programs of earlier versions of the family stay the same
    for i in range(n):
        src, goals = gen_program(rnd, allow_params)
        if rnd2.random() < 0.2:
            # a constant defined from the INITIAL value of a variable the loop changes (D28), used by one more accumulator
            lines = src.split('\n'); wi = next(k for k, l in enumerate(lines) if l.startswith('while '))
            base = goals[0]
            lines[wi:wi] = [f'k = {base} + 1' if rnd2.random() < 0.5 else f'k = 2*{base}', 'w = 0']
            ei = max(k for k, l in enumerate(lines) if l.strip() == 'end')
            lines[ei:ei] = ['    w = w + k']
            src = '\n'.join(lines); goals = list(goals) + ['w']
        out.append((f'gen{seed}_{i}', src, goals))
    return out
