import sys
from pyvc.verify import main
sys.exit(main(sys.argv[1:]))
