"""pyvc.verify: contract registry, obligation generation from the real source, discharge, reporting."""
import ast, importlib, json, os, sys, time, traceback, fractions, multiprocessing, glob
import z3
from .core import *

REPO = os.environ.get('POLAR_REPO', '/repo')
Z3_TIMEOUT_MS = int(os.environ.get('PYVC_Z3_TIMEOUT_MS', '20000'))
z3.set_param('memory_max_size', int(os.environ.get('PYVC_Z3_MEM_MB', '2000')))
CVC5_TIMEOUT_MS = int(os.environ.get('PYVC_CVC5_TIMEOUT_MS', '60000'))

REGISTRY = {}          # name -> (file, qual, props, builder)


def contract(file, qual, props, name=None):
    def deco(fn):
        key = name or f'{file}::{qual}'
        REGISTRY[key] = dict(file=file, qual=qual, props=list(props), build=fn, name=key)
        return fn
    return deco


class Cx:
    """Contract builder handed to each sidecar contract function."""

    def __init__(self):
        self.st = State()
        self.d = dict(requires=[], invariants={}, decreases={}, calls={}, fields={}, attrs={}, axioms=[], globals={})
        self.lemmas = []           # (name, formula): assumed mathematical facts, listed in the evidence
        self.inputs = {}           # name -> z3 constant (for counter-model extraction)
        self._ensures = None
        self._raises = None
        self.replay = None
        self.notes = []
        self.trusted = []          # free-text assumed contracts of callees
        self.expect_dead = 0

    # symbolic constants
    def _c(self, name, sort):
        c = z3.Const(name, sort); self.inputs[name] = c; return c

    def int(self, name): return VI(self._c(name, I))
    def real(self, name): return VR(self._c(name, R))
    def num(self, name): return VN(self._c(name, R))
    def bool(self, name): return VB(self._c(name, B))
    def str(self, name): return V('str', self._c(name, S))
    def ref(self, name, cls=None): return V('ref', self._c(name, REF), cls=cls)
    def seq(self, name, ek, kind='seq'): return V(kind, self._c(name, z3.SeqSort(ek.sort())), ek=ek)
    def set(self, name, ek): return self.seq(name, ek, 'set')

    def map(self, name, kk, vk, size=None):
        arr = self._c(name, z3.ArraySort(kk.sort(), vk.sort()))
        dom = self._c(name + '$dom', z3.ArraySort(kk.sort(), B))
        return V('map', (arr, dom), kk=kk, vk=vk, size=size)

    def obj(self, cls, **fields): return new_obj(self.st, cls, **fields)
    def none(self): return VNone()

    def param(cx, **kw):
        for k, v in kw.items(): cx.st.vars[k] = v

    def requires(self, *conds): self.d['requires'] += list(conds)
    def invariant(self, k, fn): self.d['invariants'][k] = fn
    def decreases(self, k, fn): self.d['decreases'][k] = fn
    def ensures(self, fn): self._ensures = fn
    def raises(self, fn): self._raises = fn
    def call(self, name, fn, trusted=None):
        self.d['calls'][name] = fn
        if trusted: self.trusted.append(f'{name}: {trusted}')
    def field(self, name, fn): self.d['fields'][name] = fn
    def attr(self, name, fn): self.d['attrs'][name] = fn
    def glob(self, name, v): self.d['globals'][name] = v
    def isinstance(self, fn): self.d['isinstance'] = fn
    def axiom(self, *fs): self.d['axioms'] += list(fs)
    def lemma(self, name, formula): self.lemmas.append((name, formula)); self.d['axioms'].append(formula)
    def note(self, s): self.notes.append(s)
    def set_hook(self, key, fn): self.d[key] = fn


def ind(b): return z3.If(b, z3.RealVal(1), z3.RealVal(0))


def model_value(m, t):
    v = m.eval(t, model_completion=True)
    return z3_to_py(v)


def z3_to_py(v):
    try:
        if z3.is_int_value(v): return v.as_long()
        if z3.is_rational_value(v):
            f = fractions.Fraction(v.numerator_as_long(), v.denominator_as_long())
            return int(f) if f.denominator == 1 else f'{f.numerator}/{f.denominator}'
        if z3.is_true(v): return True
        if z3.is_false(v): return False
        if z3.is_string_value(v): return v.as_string()
        if z3.is_algebraic_value(v): return v.approx(12).as_decimal(12)
        if z3.is_seq(v):
            # concat of units / empty
            out = []

            def walk(x):
                if x.decl().kind() == z3.Z3_OP_SEQ_CONCAT:
                    for ch in x.children(): walk(ch)
                elif x.decl().kind() == z3.Z3_OP_SEQ_UNIT: out.append(z3_to_py(x.arg(0)))
                elif x.decl().kind() == z3.Z3_OP_SEQ_EMPTY: pass
                else: out.append(str(x))
            walk(v)
            return out
        if v.num_args() > 0 and v.decl().kind() == z3.Z3_OP_DT_CONSTRUCTOR:
            return [z3_to_py(a) for a in v.children()]
    except Exception:
        pass
    return str(v)


def _symbols(f, memo):
    """names of the uninterpreted constants / functions occurring in f"""
    key = f.get_id()
    if key in memo: return memo[key]
    out = set(); seen = set(); todo = [f]
    while todo:
        x = todo.pop()
        if x.get_id() in seen: continue
        seen.add(x.get_id())
        if z3.is_quantifier(x): todo.append(x.body()); continue
        if z3.is_app(x):
            if x.decl().kind() == z3.Z3_OP_UNINTERPRETED: out.add(x.decl().name())
            todo += x.children()
    memo[key] = out
    return out


def relevant_axioms(axioms, seeds):
    """cone of influence: the axioms connected to the query through shared uninterpreted symbols. Dropping hypotheses can only lose proofs, never
    create one, so 'unsat' on the reduced set is a proof; every other answer is re-asked with all axioms."""
    memo = {}
    cur = set()
    for f in seeds: cur |= _symbols(f, memo)
    rest = [(a, _symbols(a, memo)) for a in axioms]
    keep = []
    changed = True
    while changed:
        changed = False
        nxt = []
        for a, sy in rest:
            if not sy or (sy & cur):
                keep.append(a); cur |= sy; changed = True
            else: nxt.append((a, sy))
        rest = nxt
    return keep


def _split_attempt(axioms, o):
    """conjunct by conjunct, each against the cone of influence of the whole query -- small queries are the stable ones. True = all proved."""
    try:
        rel = relevant_axioms(axioms, list(o.pc) + [o.goal])
        conjs = []

        def flat(g):
            if z3.is_and(g):
                for c in g.children(): flat(c)
            else: conjs.append(g)
        flat(o.goal)
        if len(rel) == len(axioms) and len(conjs) <= 1: return False
        for g in conjs:
            s0 = z3.Solver(); s0.set('timeout', Z3_TIMEOUT_MS // 2)
            for a in rel: s0.add(a)
            for p in o.pc: s0.add(p)
            s0.add(z3.Not(g))
            for inst in mem_instances(list(rel) + list(o.pc) + [z3.Not(g)]): s0.add(inst)
            if s0.check() != z3.unsat: return False
        return True
    except Exception:
        return False


def discharge(axioms, o, want_model=True, split_first=False):
    """returns (verdict, backend, seconds, model|None, reason)"""
    t0 = time.time()
    if split_first and _split_attempt(axioms, o): return 'discharged', 'z3', time.time() - t0, None, ''
    s = z3.Solver(); s.set('timeout', Z3_TIMEOUT_MS)
    for a in axioms: s.add(a)
    for p in o.pc: s.add(p)
    s.add(z3.Not(o.goal))
    for inst in mem_instances(list(axioms) + list(o.pc) + [z3.Not(o.goal)]): s.add(inst)
    t = time.time(); r = s.check(); dt = time.time() - t
    if r == z3.unsat: return 'discharged', 'z3', dt, None, ''
    if r == z3.sat: return 'refuted', 'z3', dt, s.model(), ''
    reason = s.reason_unknown()
    if not split_first:
        t1 = time.time()
        if _split_attempt(axioms, o): return 'discharged', 'z3', dt + time.time() - t1, None, ''
        dt += time.time() - t1
    # second attempt: skolemise the goal conjunct by conjunct and instantiate quantified hypotheses at the ground sequence indices
    try:
        import itertools as _it
        cnt = _it.count()
        parts = strip_goal(o.goal, lambda srt, nm: z3.Const(f'sk!{nm}!{next(cnt)}', srt))
        all_ok = True; dt2 = 0.0
        for hyps, g in parts:
            s2 = z3.Solver(); s2.set('timeout', Z3_TIMEOUT_MS)
            base = list(axioms) + list(o.pc) + list(hyps)
            for a in base: s2.add(a)
            s2.add(z3.Not(g))
            ground = list(hyps) + [z3.Not(g)] + [p for p in o.pc if not z3.is_quantifier(p)]
            inst = index_instances(base, ground)
            for i_ in inst: s2.add(i_)
            for i_ in mem_instances(base + [z3.Not(g)] + inst): s2.add(i_)
            t2 = time.time(); r2 = s2.check(); dt2 += time.time() - t2
            if r2 != z3.unsat: all_ok = False; break
        if all_ok and parts: return 'discharged', 'z3+inst', dt + dt2, None, ''
    except Exception as ex_:       # the helper must never turn into a verdict
        reason += f'; inst: {ex_}'
    # second opinion: cvc5 on the SMT-LIB text
    try:
        v2, dt2 = cvc5_check(s.to_smt2())
    except Exception as ex:          # noqa
        v2, dt2 = 'unknown', 0.0
        reason += f'; cvc5: {ex}'
    if v2 == 'unsat': return 'discharged', 'cvc5', dt + dt2, None, ''
    if v2 == 'sat': return 'refuted', 'cvc5', dt + dt2, None, 'cvc5 sat (no model extracted)'
    return 'unknown', 'z3+cvc5', dt + dt2, None, reason


def cvc5_check(smt2):
    import subprocess, tempfile
    t = time.time()
    with tempfile.NamedTemporaryFile('w', suffix='.smt2', delete=False) as f:
        f.write('(set-logic ALL)\n' + smt2)
        path = f.name
    try:
        p = subprocess.run(['/usr/bin/cvc5', '--strings-exp', f'--tlimit={CVC5_TIMEOUT_MS}', path],
                           capture_output=True, text=True, timeout=CVC5_TIMEOUT_MS / 1000 + 10)
        out = p.stdout.strip().splitlines()
        v = out[0] if out else 'unknown'
    finally:
        os.unlink(path)
    return v, time.time() - t


def _has_quantifier(f):
    if z3.is_quantifier(f): return True
    return any(_has_quantifier(c) for c in f.children())


def verify_one(key):
    """Generate and discharge the obligations of one contract. Returns a JSON-able record."""
    ent = REGISTRY[key]
    rec = dict(name=key, file=ent['file'], qual=ent['qual'], props=ent['props'], status='ok', obligations=[],
               solver_s=0.0, trusted=[], lemmas=[], notes=[], dead_paths=[], reachable_paths=0)
    t0 = time.time()
    try:
        path = os.path.join(REPO, ent['file'])
        src = open(path).read()
        tree = ast.parse(src)
        fn = find_function(tree, ent['qual'])
        if fn is None:
            rec['status'] = 'out-of-reach'; rec['reason'] = f"function {ent['qual']} not found in {ent['file']}"
            return rec
        rec['lines'] = [fn.lineno, fn.end_lineno]
        cx = Cx()
        ent['build'](cx)
        rec['lemmas'] = [n for n, _ in cx.lemmas]
        rec['notes'] = cx.notes
        ex = Exec(fn, cx.d)
        st = cx.st
        # default values of parameters not bound by the contract
        args = fn.args
        st.pc += cx.d['requires']
        ends = ex.block(fn.body, st)
        for e in ends:
            ex.returns.append((e, VNone(), fn.end_lineno))
        obls = list(ex.obls)
        for i, (rs, rv, line) in enumerate(ex.returns):
            if cx._ensures is not None:
                try: g = cx._ensures(rs, rv)
                except KeyError as ke: raise OutOfReach(f'the postcondition refers to the local {ke} which the source no longer has')
                if isinstance(g, (list, tuple)): g = z3.And(*g)
                obls.append(Obligation(f'return{i}.ensures', rs.pc, g, 'ensures', line))
        for i, (rs, rv, line) in enumerate(ex.raises):
            try: g = cx._raises(rs, rv) if cx._raises is not None else z3.BoolVal(False)
            except KeyError as ke: raise OutOfReach(f'the exceptional postcondition refers to the local {ke} which the source no longer has')
            obls.append(Obligation(f'raise{i}.allowed', rs.pc, g, 'raises', line))
        axioms = ex.axioms + mem_axioms()
        rec['trusted'] = sorted(set(cx.trusted) | {f'callee contract: {n}' for n in ex.trusted})
        # vacuity: precondition satisfiable, and which exits are reachable
        # vacuity / reachability checks are satisfiability queries: quantified facts are dropped for them (a model search under quantifiers can
        # diverge); 'unsat' without them is still a proof that the path is dead, 'sat' only means 'not shown dead'
        ground = lambda fs: [f for f in fs if not _has_quantifier(f)]
        s = z3.Solver(); s.set('timeout', Z3_TIMEOUT_MS)
        for a in ground(axioms): s.add(a)
        for p in ground(cx.d['requires']): s.add(p)
        r = s.check()
        if r == z3.unsat:
            # confirm with a second solver instance and another seed: a precondition is only called contradictory when both agree
            s = z3.Solver(); s.set('timeout', Z3_TIMEOUT_MS); s.set('random_seed', 7)
            for a in ground(axioms): s.add(a)
            for p in ground(cx.d['requires']): s.add(p)
            r = s.check()
        rec['requires_sat'] = str(r)
        if r == z3.unsat and os.environ.get('PYVC_DEBUG_CORE'):
            open('/tmp/vacuity.smt2', 'w').write(s.to_smt2())
            s_ = z3.Solver(); fs = ground(axioms) + ground(cx.d['requires'])
            for i_, f_ in enumerate(fs): s_.assert_and_track(f_, f'c{i_}')
            if s_.check() == z3.unsat: rec['unsat_core'] = [str(fs[int(str(c_)[1:])])[:300] for c_ in s_.unsat_core()]
        if r == z3.unsat:
            rec['status'] = 'vacuous'; rec['reason'] = 'precondition (with axioms) is unsatisfiable'
        for kind, lst in (('return', ex.returns), ('raise', ex.raises)):
            for i, (rs, rv, line) in enumerate(lst):
                s = z3.Solver(); s.set('timeout', 5000)
                for a in ground(axioms): s.add(a)
                for p in ground(rs.pc): s.add(p)
                r = s.check()
                if r == z3.unsat: rec['dead_paths'].append(f'{kind}{i}@{line}')
                else: rec['reachable_paths'] += 1
        if rec['reachable_paths'] == 0 and rec['status'] == 'ok':
            rec['status'] = 'vacuous'; rec['reason'] = 'no exit of the function is reachable under the contract'
        solver_failed = None
        for o in obls:
            if solver_failed:
                verdict, backend, dt, model, reason = 'unknown', 'z3', 0.0, None, f'not attempted: {solver_failed}'
            else:
                try:
                    verdict, backend, dt, model, reason = discharge(axioms, o, split_first=bool(cx.d.get('split_first')))
                except z3.Z3Exception as zex:      # a solver resource failure is 'unknown' for this and the remaining obligations of the function
                    solver_failed = f'solver failure at {o.name}: {zex}'
                    verdict, backend, dt, model, reason = 'unknown', 'z3', 0.0, None, solver_failed
            rec['solver_s'] += dt
            orec = dict(name=o.name, kind=o.kind, line=o.line, verdict=verdict, backend=backend, s=round(dt, 3))
            if verdict == 'refuted':
                if model is not None:
                    orec['model'] = {n: model_value(model, c) for n, c in cx.inputs.items()}
                if getattr(o, 'witness', None):
                    orec.setdefault('model', {})['$witness'] = o.witness
                orec['solver_output'] = reason or 'sat'
            if verdict == 'unknown': orec['solver_output'] = reason
            rec['obligations'].append(orec)
        if not obls and rec['status'] == 'ok':
            rec['status'] = 'vacuous'; rec['reason'] = 'zero obligations generated'
        rec['replay'] = cx.replay
        if ex.loops_without_invariant:
            rec['notes'] = list(rec.get('notes') or []) + [f'loops {sorted(ex.loops_without_invariant)}: no (statable) invariant in the contract, cut with true/false']
    except OutOfReach as ex_:
        rec['status'] = 'out-of-reach'; rec['reason'] = str(ex_)
    except Exception as ex_:      # engine error: never a verdict about the code
        rec['status'] = 'engine-error'; rec['reason'] = ''.join(traceback.format_exception(ex_))[-3000:]
    rec['wall_s'] = round(time.time() - t0, 3)
    rec['solver_s'] = round(rec['solver_s'], 3)
    return rec


def load_contracts():
    here = os.path.dirname(os.path.dirname(os.path.abspath(__file__)))
    if here not in sys.path: sys.path.insert(0, here)
    for p in sorted(glob.glob(os.path.join(here, 'contracts', '*.py'))):
        m = os.path.basename(p)[:-3]
        if m.startswith('_'): continue
        importlib.import_module(f'contracts.{m}')
    return REGISTRY


def _worker(key):
    load_contracts()
    return verify_one(key)


def verify_many(keys, procs=16, budget=None):
    """one forked process per contract (wall-clock budget + address-space limit: a diverging solver becomes an 'engine-error' record, never a hang)"""
    if not keys: return []
    from vcheck import pool as vpool
    budget = budget or int(os.environ.get('PYVC_CONTRACT_BUDGET_S', '400'))
    res = vpool.run_items(_worker_item, list(keys), budget=budget, procs=procs)
    # a contract whose process died (the solver exhausted the address space while searching for a counter-model) is verified once more, alone, with
    # a small solver memory cap: the solver then gives up on the offending obligation ('unknown') instead of taking the process down
    died = [i for i, r in enumerate(res) if 'name' not in r and 'died' in str(r.get('why'))]
    if died:
        res2 = vpool.run_items(_worker_item_lowmem, [keys[i] for i in died], budget=budget, procs=max(1, min(4, procs)))
        for i, r in zip(died, res2):
            if 'name' in r:
                r.setdefault('notes', []); r['notes'] = list(r['notes']) + ['first attempt: verification process died; re-verified with a 600 MB solver cap']
                res[i] = r
    out = []
    for k, r in zip(keys, res):
        if 'name' in r: out.append(r); continue
        ent = REGISTRY.get(k, {})
        out.append(dict(name=k, file=ent.get('file'), qual=ent.get('qual'), props=ent.get('props', []), status='engine-error', obligations=[],
                        reason=f"contract process: {r.get('status')}: {r.get('why')}", solver_s=0.0, trusted=[], lemmas=[], notes=[], dead_paths=[]))
    return out


def _worker_item(key):
    return _worker(key)


def _worker_item_lowmem(key):
    z3.set_param('memory_max_size', 600)
    return _worker(key)


def main(argv):
    load_contracts()
    import argparse
    ap = argparse.ArgumentParser()
    ap.add_argument('--prop'); ap.add_argument('--name'); ap.add_argument('--json'); ap.add_argument('-v', action='store_true')
    a = ap.parse_args(argv)
    keys = [k for k, e in REGISTRY.items() if (not a.prop or a.prop in e['props']) and (not a.name or a.name in k)]
    recs = verify_many(keys)
    bad = 0
    for r in recs:
        n = len(r['obligations']); d = sum(o['verdict'] == 'discharged' for o in r['obligations'])
        flag = 'OK ' if r['status'] == 'ok' and n == d and n > 0 else 'BAD'
        if flag == 'BAD': bad += 1
        print(f"{flag} {r['name']}: {r['status']} {d}/{n} discharged, {r['solver_s']}s solver, dead={r['dead_paths']}"
              + (f" :: {r.get('reason', '')}" if r['status'] != 'ok' else ''))
        for o in r['obligations']:
            if o['verdict'] != 'discharged' or a.v:
                print('     ', o['name'], o['verdict'], o.get('model', ''), o.get('solver_output', ''))
    if a.json: json.dump(recs, open(a.json, 'w'), indent=1)
    return 1 if bad else 0


