"""Symbolic TEXTS: strings that the code under contract builds out of literal pieces and of the printed form of expressions (f-strings,
'+', str.join) and then hands to a parser (sympify / the Polar grammar).  A text is a list of parts

    ('lit', 'a + (')                      a literal piece of the real source
    ('hole', term, cls, label)            the printed form of an expression whose VALUE is the z3 real `term`;
                                          cls = 'any'  : an arbitrary arithmetic expression text (may be a sum, a negative number, ...)
                                                'atom' : a text that is an operand at every position (identifier, unsigned number, '(...)')

`value(parts)` decides two things about the text, for ALL hole texts of the declared classes:

 * precedence safety: the text parses to the same tree as the text in which every hole is wrapped in parentheses.  Decided by the finite case
   analysis over operator classes: Lemma L-prec (trusted, stated in the evidence): the arithmetic expression grammar (Python's, which sympify
   uses; Polar's lark grammar has the same levels) is an operator-precedence grammar, so whether T[f] parses as T[(f)] depends only on the
   top-level operator of f (none / unary minus / + / - / * / / / **), and on its leading sign.  One representative per class, all combinations
   over the holes, parsed with CPython's own parser (ast).
 * the value of the parenthesised text as a z3 real term over the hole values (ast -> z3).

Nothing here looks at concrete parameter values; the result holds for every parameter text.
"""
import ast, itertools
from fractions import Fraction
import z3

REPS = {
    'atom': ['{x}'],
    'any': ['{x}', '-{x}', '{x} + {y}', '{x} - {y}', '-{x} - {y}', '{x}*{y}', '-{x}*{y}', '{x}/{y}', '{x}**{y}', '-{x}**{y}', '{x}*{y} + {z}'],
    # a chain "l - a - b": what a left operand built by '-'.join / '+'.join looks like
    'sum': ['{x}', '{x} + {y}', '{x} - {y}', '-{x} - {y}', '{x}*{y} - {z}'],
}
MAX_COMBOS = 20000


class TemplateError(Exception):
    pass


def flatten(parts):
    out = []
    for p in parts:
        if p[0] == 'lit' and out and out[-1][0] == 'lit': out[-1] = ('lit', out[-1][1] + p[1])
        else: out.append(p)
    return out


def _render(parts, fill):
    s, k = '', 0
    for p in parts:
        if p[0] == 'lit': s += p[1]
        else: s += fill(k, p); k += 1
    return s


def _parse(s):
    try:
        return ast.parse(s.strip(), mode='eval').body
    except SyntaxError as ex:
        raise TemplateError(f'text {s!r} is not an expression: {ex.msg}')


SQRT = z3.Function('sqrt', z3.RealSort(), z3.RealSort())      # x ** (1/2): uninterpreted (the spec side uses the same symbol)


def _const(node):
    if isinstance(node, ast.Constant) and isinstance(node.value, int) and not isinstance(node.value, bool): return Fraction(node.value)
    if isinstance(node, ast.BinOp) and isinstance(node.op, ast.Div):
        b = _const(node.right)
        if b == 0: raise TemplateError('division by zero')
        return _const(node.left) / b
    if isinstance(node, ast.UnaryOp) and isinstance(node.op, ast.USub): return -_const(node.operand)
    raise TemplateError('not a constant')


def _to_z3(node, env):
    if isinstance(node, ast.Name):
        if node.id in env: return env[node.id]
        return z3.Real(f'sym_{node.id}')
    if isinstance(node, ast.Constant) and isinstance(node.value, (int, float)) and not isinstance(node.value, bool):
        return z3.RealVal(str(node.value)) if isinstance(node.value, int) else z3.RealVal(repr(node.value))
    if isinstance(node, ast.UnaryOp) and isinstance(node.op, ast.USub): return -_to_z3(node.operand, env)
    if isinstance(node, ast.UnaryOp) and isinstance(node.op, ast.UAdd): return _to_z3(node.operand, env)
    if isinstance(node, ast.BinOp):
        a = _to_z3(node.left, env)
        if isinstance(node.op, ast.Pow):
            try: ev = _const(node.right)
            except TemplateError: ev = None
            if ev is not None and ev.denominator == 1 and 0 <= ev.numerator <= 8:
                r = z3.RealVal(1)
                for _ in range(ev.numerator): r = r * a
                return r
            if ev is not None and ev == Fraction(1, 2): return SQRT(a)
            raise TemplateError('power with an exponent other than a literal 0..8 or 1/2 in a text')
        b = _to_z3(node.right, env)
        if isinstance(node.op, ast.Add): return a + b
        if isinstance(node.op, ast.Sub): return a - b
        if isinstance(node.op, ast.Mult): return a * b
        if isinstance(node.op, ast.Div): return a / b
    raise TemplateError(f'unsupported syntax in a text: {ast.dump(node)[:80]}')


def value(parts):
    """-> (z3 real term: value of the text with every hole parenthesised, safe: bool, witness: dict|None)"""
    parts = flatten(parts)
    holes = [p for p in parts if p[0] == 'hole']
    env = {f'h{k}': h[1] for k, h in enumerate(holes)}
    wrapped = _render(parts, lambda k, p: f'(h{k})')
    term = _to_z3(_parse(wrapped), env)
    # precedence safety: all combinations of representatives
    reps = [REPS[h[2]] for h in holes]
    n = 1
    for r in reps: n *= len(r)
    if n <= MAX_COMBOS:
        combos = itertools.product(*reps)
    else:       # one hole at a time against every representative, the others running over a reduced family
        red = lambda r: [x for x in r if x in ('{x}', '-{x}', '{x} + {y}', '{x}*{y}')]
        combos = itertools.chain.from_iterable(
            itertools.product(*[(r if i == k else red(r)) for i, r in enumerate(reps)]) for k in range(len(reps)))
    for combo in combos:
        frag = lambda k, p: combo[k].format(x=f'x{k}', y=f'y{k}', z=f'z{k}')
        raw = _render(parts, frag)
        par = _render(parts, lambda k, p: '(' + frag(k, p) + ')')
        try:
            same = ast.dump(_parse(raw)) == ast.dump(_parse(par))
        except TemplateError:
            same = False
        if not same:
            wit = {'text': _render(parts, lambda k, p: '{' + str(p[3]) + '}'),
                   'fragments': {str(h[3]): combo[k].format(x='x', y='y', z='z') for k, h in enumerate(holes)},
                   'reads_as': raw, 'intended': par}
            return term, False, wit
    return term, True, None


def join(sep, items_cls, first=None):
    """value semantics of  first + sep + sep.join(items)  (or sep.join(items) when first is None) for EVERY number of items, by induction over
    the number of items with the step text  '{acc}' + sep + '{item}'  where acc is a 'sum'-class hole (a chain built so far) -- returns the
    binary step function  (acc_term, item_term) -> (term, safe, witness)."""
    def step(acc, item, label='item'):
        return value([('hole', acc, 'sum', 'chain so far'), ('lit', sep), ('hole', item, items_cls, label)])
    return step


def is_atomic(parts):
    """the text is an operand in EVERY context: checked in the tightest context on both sides (right operand of ** and left operand of **)"""
    ctx = [('lit', 'q0**')] + list(parts) + [('lit', '**q1')]
    par = [('lit', 'q0**(')] + list(parts) + [('lit', ')**q1')]
    holes = [p for p in flatten(parts) if p[0] == 'hole']
    for combo in itertools.product(*[REPS[h[2]] for h in holes]):
        frag = lambda k, p: combo[k].format(x=f'x{k}', y=f'y{k}', z=f'z{k}')
        a, b = _render(flatten(ctx), frag), _render(flatten(par), frag)
        try: same = ast.dump(_parse(a)) == ast.dump(_parse(b))
        except TemplateError: same = False
        if not same:
            return False, {'fragments': {str(h[3]): combo[k].format(x='x', y='y', z='z') for k, h in enumerate(holes)}, 'in_context': a, 'intended': b}
    return True, None


def chain_obligations(parts, fresh, base_spec, step_spec):
    """A text  prefix + item_1 + sep + item_2 + ... + sep + item_k  (k >= 1, chain last) denotes, by induction on k (Lemma L-chain: the text for
    k items is the text for k-1 items followed by sep + item_k),  V_1 = base_spec(a_1),  V_k = step_spec(V_{k-1}, a_k)  provided
      base: the text with ONE item reads as intended and has the value base_spec(a_1)
      step: '{any expression}' + sep + item reads as intended and has the value step_spec(acc, a)
    -> list of (name, z3 goal, witness)"""
    parts = list(parts)
    ch = [i for i, p in enumerate(parts) if p[0] == 'chain']
    if len(ch) != 1 or ch[0] != len(parts) - 1: raise TemplateError('a repeated part that is not the last part of the text')
    _, sep, item = parts[-1]
    a1, acc, a = fresh('item1'), fresh('chain_value'), fresh('item')
    out = []
    t, safe, wit = value(parts[:-1] + item(a1))
    out.append(('text.chain.base.reads-as-intended', z3.BoolVal(safe), wit))
    out.append(('text.chain.base.value', t == base_spec(a1), {'text': 'one item', 'items': 1}))
    t, safe, wit = value([('hole', acc, 'any', 'the text so far')] + [('lit', sep)] + item(a))
    out.append(('text.chain.step.reads-as-intended', z3.BoolVal(safe), wit))
    out.append(('text.chain.step.value', t == step_spec(acc, a), {'text': 'text so far' + sep + 'item', 'items': 2}))
    return out
