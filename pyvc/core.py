"""pyvc core: a verification-condition generator for a subset of Python.

The executor re-reads the *real* source text of a function in /repo on every
run (``ast.parse``), executes it symbolically path by path against a sidecar
contract, and emits proof obligations that are discharged by z3 (fallback cvc5).

Nothing of the verified function is copied into /verif: contracts name the file
and qualified function name, give sorts for the parameters, pre/postconditions,
loop invariants keyed by loop ordinal, and callee contracts.

What the translation assumes of Python semantics is listed in ASSUMPTIONS and is
copied into every evidence file.
"""
import ast
import itertools
import z3

R, I, B = z3.RealSort(), z3.IntSort(), z3.BoolSort()
S = z3.StringSort()
REF = z3.DeclareSort('Ref')

ASSUMPTIONS = [
    "A-int: Python int is a mathematical integer (exact for CPython).",
    "A-cas: symengine/sympy Expr arithmetic (+,-,*,/,**) denotes real arithmetic on the value of the expression under "
    "one arbitrary fixed valuation of its free symbols; sympify/expand/simplify/copy/float_to_rational/Rational are the "
    "identity on that value.",
    "A-float: float(x) and Python float arithmetic are treated as mathematical reals.",
    "A-eq: '==' between Expr operands is structural; it is modelled by a fresh boolean b with b => values equal "
    "(nothing is learnt from False). '==' between ints / numeric literals / strings is value equality.",
    "A-set: iteration over a set and set.pop() take an arbitrary order / element (sets are sequences of unspecified order, "
    "distinctness stated in preconditions where needed).",
    "A-alias: distinct parameters / fields do not alias unless the contract says so; locally built lists are not aliased.",
    "A-pow: x**k with integer k is an uninterpreted pow(Real,Int) constrained by true instances of the laws of powers "
    "(pow(x,0)=1, pow(x,1)=x, pow(x,2)=x*x, pow(1,k)=1, pow(0,k>0)=0, and lemma instances named in the contract).",
    "A-term: termination of loops is not verified unless a 'decreases' obligation is listed.",
    "A-exc: only explicit 'raise' statements are modelled as exceptional exits; exceptions raised inside trusted callees "
    "are part of the callee's assumed contract.",
]

POW = z3.Function('pow', R, I, R)
SUMSEQ = z3.Function('sum_seq', z3.SeqSort(R), R)     # sum of a sequence of reals (uninterpreted; contracts state what they need)


_MEM = {}


def member(seq_t, x):
    """x in seq: an uninterpreted predicate mem_S(seq, x) tied to indices by two axioms (see mem_axioms): z3's sequence theory does
    not relate Contains and Nth by itself, and a bare Exists gives quantified contracts no usable trigger."""
    srt = seq_t.sort()
    key = str(srt)
    if key not in _MEM:
        es = srt.basis()
        _MEM[key] = (z3.Function(f'mem_{len(_MEM)}', srt, es, B), z3.Function(f'wit_{len(_MEM)}', srt, es, I), srt, es)
    if not z3.is_expr(x):
        x = z3.RealVal(x) if _MEM[key][3] == R else z3.IntVal(x)
    return _MEM[key][0](seq_t, x)


def mem_axioms():
    """quantified form of the two membership axioms (kept for quantified contract formulas; ground terms are instantiated by
    mem_instances because E-matching on sequence terms is unreliable)"""
    out = []
    for mem, wit, srt, es in _MEM.values():
        s_, x_ = z3.Const('s!m', srt), z3.Const('x!m', es)
        out.append(z3.ForAll([s_, x_], z3.Implies(mem(s_, x_), z3.And(0 <= wit(s_, x_), wit(s_, x_) < z3.Length(s_), s_[wit(s_, x_)] == x_)),
                             patterns=[mem(s_, x_)]))
    return out


def mem_instances(formulas, rounds=2):
    """ground instances of   0 <= j < len(s) => mem(s, s[j])   for every term s[j] occurring in the formulas, and of
    mem(s, x) => s[wit(s,x)] == x  for every ground mem term (sound: instances of true axioms)."""
    by_sort = {str(v[2]): v for v in _MEM.values()}
    seen, out = set(), []
    todo = list(formulas)
    for _ in range(rounds):
        nth, mems = [], []

        def walk(t):
            if not z3.is_app(t) or t.get_id() in seen: return
            seen.add(t.get_id())
            if z3.is_quantifier(t): walk(t.body()); return
            k = t.decl().kind()
            if k == z3.Z3_OP_SEQ_NTH and str(t.arg(0).sort()) in by_sort: nth.append(t)
            if k == z3.Z3_OP_UNINTERPRETED and t.num_args() == 2 and str(t.arg(0).sort()) in by_sort and t.decl().eq(by_sort[str(t.arg(0).sort())][0]): mems.append(t)
            for ch in t.children(): walk(ch)
        for f in todo:
            if z3.is_quantifier(f): walk(f.body())
            else: walk(f)
        new = []
        for t in nth:
            s_, j_ = t.arg(0), t.arg(1)
            if any(z3.is_var(x) for x in (s_, j_)) or _has_var(t): continue
            mem = by_sort[str(s_.sort())][0]
            new.append(z3.Implies(z3.And(0 <= j_, j_ < z3.Length(s_)), mem(s_, t)))
        for t in mems:
            if _has_var(t): continue
            s_, x_ = t.arg(0), t.arg(1)
            wit = by_sort[str(s_.sort())][1]
            new.append(z3.Implies(t, z3.And(0 <= wit(s_, x_), wit(s_, x_) < z3.Length(s_), s_[wit(s_, x_)] == x_)))
        out += new; todo = new
        if not new: break
    return out


def strip_goal(goal, fresh):
    """split a goal into (extra hypotheses, ground conjunct) pairs: conjunctions are split, universally quantified conjuncts are
    skolemised with fresh constants (proving phi(c) for fresh c proves forall x. phi(x)), implications move their antecedent to the hypotheses"""
    out = []

    def rec(g, hyps):
        if z3.is_and(g):
            for ch in g.children(): rec(ch, hyps)
        elif z3.is_quantifier(g) and g.is_forall():
            cs = [fresh(g.var_sort(i), g.var_name(i)) for i in range(g.num_vars())]
            rec(z3.substitute_vars(g.body(), *reversed(cs)), hyps)
        elif z3.is_implies(g):
            rec(g.arg(1), hyps + [g.arg(0)])
        else:
            out.append((hyps, g))
    rec(goal, [])
    return out


def index_instances(hyps, ground, rounds=2, limit=40):
    """instances of universally quantified hypotheses with ONE integer bound variable at the ground index terms that occur in
    sequence accesses s[idx] (and idx +- 1) of the ground formulas: a trigger-free replacement for E-matching on sequence terms (sound)."""
    out = []
    quants = [h for h in hyps if z3.is_quantifier(h) and h.is_forall() and h.num_vars() == 1 and h.var_sort(0) == I]
    formulas = [h for h in hyps if not z3.is_quantifier(h)] + list(ground)
    seen_idx = {}
    for _ in range(rounds):
        idxs = {}

        def walk(t, seen):
            if t.get_id() in seen: return
            seen.add(t.get_id())
            if z3.is_quantifier(t): return
            if z3.is_app(t):
                if t.decl().kind() == z3.Z3_OP_SEQ_NTH and not _has_var(t.arg(1)): idxs[t.arg(1).get_id()] = t.arg(1)
                for ch in t.children(): walk(ch, seen)
        sn = set()
        for f in formulas + out: walk(f, sn)
        new = []
        for k, idx in idxs.items():
            if k in seen_idx: continue
            seen_idx[k] = idx
            for q in quants:
                for term in (idx, idx + 1, idx - 1):
                    new.append(z3.substitute_vars(q.body(), term))
            if len(seen_idx) > limit: break
        if not new: break
        out += new
    return out


def _has_var(t):
    if z3.is_var(t): return True
    return any(_has_var(c) for c in t.children())


class OutOfReach(Exception):
    """The function left the supported subset; it is never counted as verified."""


# ----------------------------------------------------------------------------------------------
# values
# ----------------------------------------------------------------------------------------------
class V:
    """A tagged symbolic value.

    kind: int | real | num | bool | str | none | seq | set | map | ref | obj | tuple | range | comp | exc | cls | fn
      real = value of a CAS expression (structural ==), num = numeric literal object (value ==)
      seq/set: t is a z3 Seq, ek is the element descriptor (a V-like template: kind + optional sub descriptors)
      map: t = (array, dom) z3 arrays, kk/vk descriptors
      ref: t is a z3 Ref term (symbolic object, read-only fields through uninterpreted functions)
      obj: t is a concrete object id into the state's heap (mutable record)
      tuple: t is a python tuple of V
    """
    __slots__ = ('kind', 't', 'x')

    def __init__(self, kind, t=None, **x):
        self.kind, self.t, self.x = kind, t, x

    def __repr__(self):
        return f"V({self.kind},{self.t},{self.x if self.x else ''})"

    def get(self, k, d=None):
        return self.x.get(k, d)


def VI(t): return V('int', t if z3.is_expr(t) else z3.IntVal(t))
def VR(t): return V('real', t if z3.is_expr(t) else z3.RealVal(t))
def VN(t): return V('num', t if z3.is_expr(t) else z3.RealVal(t))
def VB(t): return V('bool', t if z3.is_expr(t) else z3.BoolVal(t))
def VS(t): return V('str', t if z3.is_expr(t) else z3.StringVal(t))
def VNone(): return V('none')
def VTuple(*items): return V('tuple', tuple(items))


class D:
    """Descriptor of an element type inside a z3 container."""
    def __init__(self, kind, **x):
        self.kind, self.x = kind, x

    def sort(self):
        k = self.kind
        if k == 'int': return I
        if k in ('real', 'num'): return R
        if k == 'bool': return B
        if k == 'str': return S
        if k == 'ref': return REF
        if k in ('seq', 'set'): return z3.SeqSort(self.x['elem'].sort())
        if k == 'tuple': return tuple_sort(self.x['items'])[0]
        raise OutOfReach(f'no sort for descriptor {k}')

    def wrap(self, t):
        k = self.kind
        if k in ('int', 'real', 'num', 'bool', 'str'): return V(k, t)
        if k == 'ref': return V('ref', t, cls=self.x.get('cls'))
        if k in ('seq', 'set'): return V(k, t, ek=self.x['elem'])
        if k == 'tuple':
            _, mk, accs = tuple_sort(self.x['items'])
            return V('tuple', tuple(d.wrap(a(t)) for d, a in zip(self.x['items'], accs)))
        raise OutOfReach(f'wrap {k}')

    def __repr__(self): return f"D({self.kind},{self.x})"


DI, DR, DN, DB, DS = D('int'), D('real'), D('num'), D('bool'), D('str')
def DRef(cls=None): return D('ref', cls=cls)
def DSeq(e): return D('seq', elem=e)
def DTuple(*items): return D('tuple', items=list(items))

_tuple_sorts = {}


def tuple_sort(items):
    key = tuple(str(d.sort()) for d in items)
    if key not in _tuple_sorts:
        name = 'Tup_' + '_'.join(k.replace(' ', '').replace('(', '').replace(')', '') for k in key)
        _tuple_sorts[key] = z3.TupleSort(name, [d.sort() for d in items])
    return _tuple_sorts[key]


def desc_of(v):
    if v.kind in ('int', 'real', 'num', 'bool', 'str'): return D(v.kind)
    if v.kind == 'ref': return DRef(v.get('cls'))
    if v.kind in ('seq', 'set'): return D(v.kind, elem=v.x['ek'])
    if v.kind == 'tuple': return DTuple(*[desc_of(i) for i in v.t])
    raise OutOfReach(f'no descriptor for {v.kind}')


def unwrap(v, d=None):
    """z3 term of a value for storing into a container with descriptor d."""
    if v.kind == 'tuple':
        items = d.x['items'] if d is not None else [desc_of(i) for i in v.t]
        _, mk, _ = tuple_sort(items)
        return mk(*[unwrap(i, di) for i, di in zip(v.t, items)])
    if d is not None and d.kind in ('real', 'num') and v.kind == 'int':
        return z3.ToReal(v.t)
    return v.t


def toreal(v):
    if v.kind in ('real', 'num'): return v.t
    if v.kind == 'int': return z3.ToReal(v.t)
    if v.kind == 'bool': return z3.If(v.t, z3.RealVal(1), z3.RealVal(0))
    raise OutOfReach(f'not numeric: {v}')


def toint(v):
    if v.kind == 'int': return v.t
    if v.kind == 'bool': return z3.If(v.t, z3.IntVal(1), z3.IntVal(0))
    raise OutOfReach(f'not an int: {v}')


def truthy(v):
    if v.kind == 'bool': return v.t
    if v.kind == 'int': return v.t != 0
    if v.kind in ('real', 'num'): return v.t != 0
    if v.kind in ('seq', 'set'): return z3.Length(v.t) > 0
    if v.kind == 'none': return z3.BoolVal(False)
    if v.kind in ('ref', 'obj'):
        if v.get('nullable') is not None: return z3.Not(v.get('nullable'))
        return z3.BoolVal(True)
    if v.kind == 'str': return z3.Length(v.t) > 0
    raise OutOfReach(f'truthiness of {v.kind}')


def lift(c):
    if isinstance(c, bool): return VB(c)
    if isinstance(c, int): return VI(c)
    if isinstance(c, float): return VR(z3.RealVal(repr(c)))
    if isinstance(c, str): return VS(c)
    if isinstance(c, bytes): return VS(c.decode('latin-1'))        # only ever used as a tag
    if c is None: return VNone()
    raise OutOfReach(f'constant {c!r}')


class Obligation:
    def __init__(self, name, pc, goal, kind='ensures', line=None, witness=None):
        self.name, self.pc, self.goal, self.kind, self.line, self.witness = name, list(pc), goal, kind, line, witness


class State:
    def __init__(self, vars=None, pc=None, heap=None):
        self.vars = dict(vars or {})
        self.pc = list(pc or [])
        self.heap = dict(heap or {})

    def fork(self, *conds):
        s = State(self.vars, self.pc, self.heap)
        s.pc += list(conds)
        return s

    def __getitem__(self, k): return self.vars[k]
    def __contains__(self, k): return k in self.vars

    def field(self, obj, attr):
        return self.heap[obj.t][attr]

    def setfield(self, obj, attr, v):
        rec = dict(self.heap[obj.t]); rec[attr] = v
        self.heap = dict(self.heap); self.heap[obj.t] = rec


_oid = itertools.count(1)


def new_obj(st, cls, **fields):
    oid = next(_oid)
    st.heap = dict(st.heap)
    st.heap[oid] = dict(fields)
    return V('obj', oid, cls=cls)


class Break(Exception): pass


# ----------------------------------------------------------------------------------------------
# executor
# ----------------------------------------------------------------------------------------------
IDENTITY_FUNCS = {'sympify', 'ssympify', 'sympy2symengine', 'float_to_rational', 'Rational1', 'simplify', 'expand',
                  'Expr', 'nsimplify'}
IDENTITY_METHODS = {'copy', 'expand', 'simplify', 'evalf'}
NOOP_STMT_CALLS = {'print', 'log'}


class Exec:
    def __init__(self, fn, contract, consts=None):
        self.fn, self.c = fn, contract
        self.obls = []
        self.axioms = list(contract.get('axioms', []))
        self.returns, self.raises = [], []
        self.loop_ord = {}
        n = 0
        for node in ast.walk(fn):
            pass
        for node in self._loops_in_order(fn):
            self.loop_ord[id(node)] = n; n += 1
        self.consts = consts or {}
        self.dry = 0
        self.pow_seen = set()
        self.trusted = set()      # names of callee contracts / assumed functions actually used
        self.fresh_n = itertools.count()
        self.loops_without_invariant = set()

    @staticmethod
    def _loops_in_order(fn):
        out = []

        def rec(n):
            for ch in ast.iter_child_nodes(n):
                if isinstance(ch, (ast.FunctionDef, ast.Lambda, ast.ClassDef)) and ch is not fn:
                    continue
                if isinstance(ch, (ast.For, ast.While)):
                    out.append(ch)
                rec(ch)
        rec(fn)
        return out

    # ---- helpers
    loops_without_invariant = None

    def fresh(self, sort, name='v'):
        return z3.Const(f'{name}!{next(self.fresh_n)}', sort)

    def fresh_like(self, v, name='h'):
        k = v.kind
        if k == 'int': return VI(self.fresh(I, name))
        if k == 'real': return VR(self.fresh(R, name))
        if k == 'num': return VN(self.fresh(R, name))
        if k == 'bool': return VB(self.fresh(B, name))
        if k == 'str': return V('str', self.fresh(S, name))
        if k in ('seq', 'set'): return V(k, self.fresh(z3.SeqSort(v.x['ek'].sort()), name), **v.x)
        if k == 'map':
            arr, dom = v.t
            return V('map', (self.fresh(arr.sort(), name), self.fresh(dom.sort(), name + '_dom')), **v.x)
        if k == 'ref': return V('ref', self.fresh(REF, name), **v.x)
        if k == 'tuple': return V('tuple', tuple(self.fresh_like(i, name) for i in v.t))
        if k in ('none', 'opaque', 'exc', 'cls'): return v
        if k == 'obj':
            fields = self.c.get('obj_havoc_fields')
            if not fields: raise OutOfReach('loop-carried heap object without obj_havoc_fields in the contract')
            cur = self._cur_state.heap[v.t]
            return new_obj(self._cur_state, v.get('cls'), **{f: self.fresh_like(cur[f], f) for f in fields})
        if z3.is_expr(v.t): return V(k, self.fresh(v.t.sort(), name), **v.x)      # a contract-defined kind over one z3 term
        raise OutOfReach(f'cannot havoc a value of kind {k}')

    def need(self, st, goal, name, kind='check', line=None, witness=None):
        if self.dry: return
        if '@' in name:                      # line numbers shift on harmless edits: name by ordinal instead
            base = name.split('@')[0]
            k = sum(1 for o in self.obls if o.name.startswith(base + '#'))
            name = f'{base}#{k}'
        self.obls.append(Obligation(name, st.pc, goal, kind, line, witness))

    def pow(self, a, b):
        """a ** b with integer b: uninterpreted pow + true instances of the power laws."""
        a_t, b_t = toreal(a), toint(b)
        a_t, b_t = z3.simplify(a_t), z3.simplify(b_t)
        if z3.is_int_value(b_t):
            n = b_t.as_long()
            if 0 <= n <= 3:
                r = z3.RealVal(1)
                for _ in range(n): r = r * a_t
                return VR(r)
        t = POW(a_t, b_t)
        key = t.get_id()
        if key not in self.pow_seen:
            self.pow_seen.add(key)
            self.axioms += [z3.Implies(b_t == 0, t == 1), z3.Implies(b_t == 1, t == a_t),
                            z3.Implies(b_t == 2, t == a_t * a_t),
                            z3.Implies(a_t == 1, t == 1), z3.Implies(z3.And(a_t == 0, b_t > 0), t == 0),
                            z3.Implies(z3.And(a_t == 0, b_t == 0), t == 1),
                            z3.Implies(a_t != 0, t != 0)]
        return VR(t)

    # ---- expressions -------------------------------------------------------------------------
    def ev(self, e, st):
        m = getattr(self, 'e_' + type(e).__name__, None)
        if m is None:
            raise OutOfReach(f'expression {type(e).__name__} at line {getattr(e, "lineno", "?")}')
        return m(e, st)

    def e_Constant(self, e, st): return lift(e.value)

    def e_Name(self, e, st):
        if e.id in st.vars: return st.vars[e.id]
        g = self.c.get('globals', {})
        if e.id in g: return g[e.id]
        if e.id in self.consts: return self.consts[e.id]
        if e.id in ('True', 'False'): return VB(e.id == 'True')
        return V('cls', e.id)     # a class / function name; only usable in isinstance / calls

    def e_Attribute(self, e, st):
        o = self.ev(e.value, st)
        if o.kind == 'obj':
            rec = st.heap[o.t]
            if e.attr in rec: return rec[e.attr]
            raise OutOfReach(f'field {e.attr} not declared on {o.get("cls")} (line {e.lineno})')
        if o.kind == 'ref':
            f = self.c.get('fields', {}).get(e.attr)
            if f is None: raise OutOfReach(f'field {e.attr} of symbolic object not declared (line {e.lineno})')
            return f(self, st, o)
        h = self.c.get('attrs', {}).get(e.attr)
        if h is not None: return h(self, st, o)
        if o.kind == 'opaque': return V('opaque')
        if o.kind == 'cls':
            key = f'{o.t}.{e.attr}'
            if key in st.vars: return st.vars[key]
            g = self.c.get('globals', {})
            if key in g: return g[key]
            return V('cls', key)
        raise OutOfReach(f'attribute {e.attr} on {o.kind} (line {e.lineno})')

    def index(self, st, o, i, line=None):
        if o.kind == 'opaque' or i.kind == 'opaque': return V('opaque')
        if o.kind == 'seq' and o.get('rev'): raise OutOfReach('subscript of a reversed(...) object')
        if o.kind == 'comp': o = self.materialise(st, o)
        if o.kind in ('seq',):
            it = toint(i)
            L = z3.Length(o.t)
            idx = z3.If(it < 0, it + L, it)
            self.need(st, z3.And(idx >= 0, idx < L), f'index-in-bounds@{line}', 'safety', line)
            return o.x['ek'].wrap(o.t[idx])
        if o.kind == 'map':
            arr, dom = o.t
            k = unwrap(i, o.x['kk'])
            self.need(st, z3.Select(dom, k), f'key-present@{line}', 'safety', line)
            return o.x['vk'].wrap(z3.Select(arr, k))
        hk = self.c.get('index_hook')
        if hk is not None:
            r = hk(self, st, o, i)
            if r is not None: return r
        if o.kind == 'fn2' and i.kind == 'tuple' and len(i.t) == 2:
            return o.x['wrap'](o.t(toint(i.t[0]), toint(i.t[1])))
        if o.kind == 'tuple':
            it = z3.simplify(toint(i))
            if z3.is_int_value(it): return o.t[it.as_long()]
        raise OutOfReach(f'subscript on {o.kind} (line {line})')

    def e_Subscript(self, e, st):
        o = self.ev(e.value, st)
        if isinstance(e.slice, ast.Slice):
            hk = self.c.get('slice_hook')
            if hk is not None:
                r = hk(self, st, o, e.slice)
                if r is not None: return r
            if o.kind != 'seq': raise OutOfReach('slice of non-seq')
            lo = toint(self.ev(e.slice.lower, st)) if e.slice.lower else z3.IntVal(0)
            L = z3.Length(o.t)
            hi = toint(self.ev(e.slice.upper, st)) if e.slice.upper else L
            if e.slice.step is not None: raise OutOfReach('slice step')
            lo = z3.If(lo < 0, lo + L, lo); hi = z3.If(hi < 0, hi + L, hi)
            lo = z3.If(lo > L, L, lo); hi = z3.If(hi > L, L, hi)
            n = z3.If(hi - lo < 0, 0, hi - lo)
            return V('seq', z3.SubSeq(o.t, lo, n), **o.x)
        return self.index(st, o, self.ev(e.slice, st), e.lineno)

    def arith(self, st, op, a, b, line=None):
        hk = self.c.get('binop')
        if hk is not None:
            r = hk(self, st, op, a, b)
            if r is not None: return r
        if a.kind == 'opaque' or b.kind == 'opaque': return V('opaque')
        if op == 'Pow':
            if b.kind not in ('int', 'bool'):
                bb = z3.simplify(toreal(b))
                raise OutOfReach(f'non-integer exponent (line {line})')
            return self.pow(a, b)
        if a.kind in ('seq',) and b.kind in ('seq',) and op == 'Add':
            return V('seq', z3.Concat(a.t, b.t), **a.x)
        if a.kind == 'str' and b.kind == 'str' and op == 'Add':
            return V('str', z3.Concat(a.t, b.t))
        if a.kind in ('set',) and b.kind in ('set',) and op in ('BitOr', 'BitAnd', 'Sub'):
            return self.set_op(st, op, a, b)
        if a.kind in ('int', 'bool') and b.kind in ('int', 'bool') and op != 'Div':
            x, y = toint(a), toint(b)
            if op == 'Add': return VI(x + y)
            if op == 'Sub': return VI(x - y)
            if op == 'Mult': return VI(x * y)
            if op == 'FloorDiv':
                self.need(st, y != 0, f'div-by-zero@{line}', 'safety', line)
                return VI(z3.If(y > 0, x / y, (-x) / (-y)))      # floor division (z3 div floors for positive divisors)
            if op == 'Mod':
                self.need(st, y != 0, f'div-by-zero@{line}', 'safety', line)
                q = z3.If(y > 0, x / y, (-x) / (-y))
                return VI(x - y * q)
            raise OutOfReach(f'int op {op}')
        x, y = toreal(a), toreal(b)
        if op == 'Add': return VR(x + y)
        if op == 'Sub': return VR(x - y)
        if op == 'Mult': return VR(x * y)
        if op == 'Div':
            self.need(st, y != 0, f'div-by-zero@{line}', 'safety', line)
            return VR(x / y)
        raise OutOfReach(f'real op {op} (line {line})')

    def set_op(self, st, op, a, b):
        # result is a fresh set characterised pointwise
        ek = a.x['ek']
        r = self.fresh(a.t.sort(), 'setop')
        x = self.fresh(ek.sort(), 'x')
        ina, inb, inr = member(a.t, x), member(b.t, x), member(r, x)
        rhs = {'BitOr': z3.Or(ina, inb), 'BitAnd': z3.And(ina, inb), 'Sub': z3.And(ina, z3.Not(inb))}[op]
        self.axioms.append(z3.ForAll([x], inr == rhs))
        return V('set', r, **a.x)

    def e_BinOp(self, e, st):
        a, b = self.ev(e.left, st), self.ev(e.right, st)
        return self.arith(st, type(e.op).__name__, a, b, e.lineno)

    def e_UnaryOp(self, e, st):
        a = self.ev(e.operand, st)
        if isinstance(e.op, ast.USub):
            if a.kind == 'int': return VI(-a.t)
            return VR(-toreal(a))
        if isinstance(e.op, ast.UAdd): return a
        if isinstance(e.op, ast.Not): return VB(z3.Not(truthy(a)))
        raise OutOfReach('unary op')

    def e_BoolOp(self, e, st):
        # python and/or return operands; supported when all operands are bool-like (used as a truth value)
        vals = [self.ev(v, st) for v in e.values]
        if all(v.kind == 'bool' for v in vals):
            ts = [v.t for v in vals]
            return VB(z3.And(*ts) if isinstance(e.op, ast.And) else z3.Or(*ts))
        # general: a or b  ==  a if truthy(a) else b  (same kind required)
        r = vals[-1]
        for v in reversed(vals[:-1]):
            c = truthy(v) if isinstance(e.op, ast.Or) else z3.Not(truthy(v))
            r = self.ite(c, v, r)
        return r

    def ite(self, c, a, b):
        c = z3.simplify(c)
        if z3.is_true(c): return a
        if z3.is_false(c): return b
        if a.kind == 'tuple' and b.kind == 'tuple' and len(a.t) == len(b.t):
            return V('tuple', tuple(self.ite(c, x, y) for x, y in zip(a.t, b.t)))
        if a.kind == 'ref' and b.kind == 'ref':
            na, nb = a.get('nullable'), b.get('nullable')
            x = dict(a.x)
            if na is not None or nb is not None:
                x['nullable'] = z3.If(c, na if na is not None else z3.BoolVal(False), nb if nb is not None else z3.BoolVal(False))
            return V('ref', z3.If(c, a.t, b.t), **x)
        if a.kind == 'none' and b.kind == 'none': return a
        if a.kind == b.kind and a.kind in ('int', 'real', 'num', 'bool', 'str', 'seq', 'set'):
            return V(a.kind, z3.If(c, a.t, b.t), **a.x)
        if {a.kind, b.kind} <= {'int', 'real', 'num', 'bool'}:
            if 'bool' in (a.kind, b.kind) and {a.kind, b.kind} == {'bool', 'int'}:
                return VI(z3.If(c, toint(a), toint(b)))
            return VR(z3.If(c, toreal(a), toreal(b)))
        if a.kind == 'none' and b.kind == 'ref':
            nb = b.get('nullable') if b.get('nullable') is not None else z3.BoolVal(False)
            return V('ref', b.t, **{**b.x, 'nullable': z3.If(c, z3.BoolVal(True), nb)})
        if b.kind == 'none' and a.kind == 'ref':
            na = a.get('nullable') if a.get('nullable') is not None else z3.BoolVal(False)
            return V('ref', a.t, **{**a.x, 'nullable': z3.If(c, na, z3.BoolVal(True))})
        raise OutOfReach(f'cannot merge {a.kind} / {b.kind}')

    def e_IfExp(self, e, st):
        c = truthy(self.ev(e.test, st))
        sa = st.fork(c); sb = st.fork(z3.Not(c))
        a = self.ev(e.body, sa); b = self.ev(e.orelse, sb)
        return self.ite(c, a, b)

    def eq(self, a, b):
        """python a == b  (see A-eq)."""
        hk = self.c.get('eq_hook')
        if hk is not None:
            r = hk(self, a, b)
            if r is not None: return r
        if a.kind == 'none' or b.kind == 'none':
            o = b if a.kind == 'none' else a
            if o.kind == 'none': return z3.BoolVal(True)
            if o.get('nullable') is not None: return o.get('nullable')
            return z3.BoolVal(False)
        if a.kind == 'str' and b.kind == 'str': return a.t == b.t
        if a.kind == 'bool' and b.kind == 'bool': return a.t == b.t
        if a.kind in ('int', 'bool') and b.kind in ('int', 'bool'): return toint(a) == toint(b)
        if a.kind in ('int', 'num', 'real', 'bool') and b.kind in ('int', 'num', 'real', 'bool'):
            if 'real' in (a.kind, b.kind):
                bb = self.fresh(B, 'streq')
                self.axioms.append(z3.Implies(bb, toreal(a) == toreal(b)))
                return bb
            return toreal(a) == toreal(b)
        if a.kind == 'ref' and b.kind == 'ref': return a.t == b.t
        if a.kind == 'tuple' and b.kind == 'tuple' and len(a.t) == len(b.t):
            return z3.And(*[self.eq(x, y) for x, y in zip(a.t, b.t)])
        if a.kind in ('seq',) and b.kind in ('seq',): return a.t == b.t
        raise OutOfReach(f'== between {a.kind} and {b.kind}')

    def contains(self, st, a, b):
        hk = self.c.get('in_hook')
        if hk is not None:
            r = hk(self, st, a, b)
            if r is not None: return r
        if b.kind in ('seq', 'set'):
            ek = b.x['ek']
            if ek.kind == 'real' or (a.kind == 'real' and ek.kind in ('num',)):
                # structural membership: true => some element has the same value
                bb = self.fresh(B, 'member')
                w = self.fresh(I, 'w')
                self.axioms.append(z3.Implies(bb, z3.And(0 <= w, w < z3.Length(b.t), b.t[w] == toreal(a))))
                return bb
            return member(b.t, unwrap(a, ek))
        if b.kind == 'map':
            arr, dom = b.t
            return z3.Select(dom, unwrap(a, b.x['kk']))
        if b.kind == 'tuple':
            return z3.Or(*[self.eq(a, x) for x in b.t]) if b.t else z3.BoolVal(False)
        raise OutOfReach(f'in {b.kind}')

    def e_Compare(self, e, st):
        left = self.ev(e.left, st)
        conj = []
        for op, rhs in zip(e.ops, e.comparators):
            right = self.ev(rhs, st)
            o = type(op).__name__
            if o == 'Eq': r = self.eq(left, right)
            elif o == 'NotEq': r = z3.Not(self.eq(left, right))
            elif o == 'Is': r = self.eq(left, right)
            elif o == 'IsNot': r = z3.Not(self.eq(left, right))
            elif o == 'In': r = self.contains(st, left, right)
            elif o == 'NotIn': r = z3.Not(self.contains(st, left, right))
            else:
                if left.kind in ('int', 'bool') and right.kind in ('int', 'bool'): x, y = toint(left), toint(right)
                else: x, y = toreal(left), toreal(right)
                r = {'Lt': x < y, 'LtE': x <= y, 'Gt': x > y, 'GtE': x >= y}[o]
            conj.append(r); left = right
        return VB(conj[0] if len(conj) == 1 else z3.And(*conj))

    def e_Tuple(self, e, st): return V('tuple', tuple(self.ev(x, st) for x in e.elts))

    def e_List(self, e, st):
        items = [self.ev(x, st) for x in e.elts]
        if not items:
            return V('seq', None, ek=None, empty=True)
        if any(i.kind == 'obj' for i in items):
            return V('pylist', tuple(items))
        ek = self.join_desc([desc_of(i) for i in items])
        t = z3.Unit(unwrap(items[0], ek))
        for i in items[1:]: t = z3.Concat(t, z3.Unit(unwrap(i, ek)))
        for i in items: self.axioms.append(member(t, unwrap(i, ek)))       # true facts about the literal
        return V('seq', t, ek=ek)

    def e_Set(self, e, st):
        v = self.e_List(e, st)
        return V('set', v.t, **v.x)

    def e_Dict(self, e, st):
        if not e.keys: return V('map', None, empty=True)
        try:
            ks = [self.ev(k, st) for k in e.keys]; vs = [self.ev(v, st) for v in e.values]
            kk, vk = self.join_desc([desc_of(k) for k in ks]), self.join_desc([desc_of(v) for v in vs])
            arr = z3.K(kk.sort(), self.default_of(vk)); dom = z3.K(kk.sort(), z3.BoolVal(False)); size = z3.IntVal(0)
            for k, v in zip(ks, vs):
                kt = unwrap(k, kk)
                size = z3.If(z3.Select(dom, kt), size, size + 1)
                arr = z3.Store(arr, kt, unwrap(v, vk)); dom = z3.Store(dom, kt, z3.BoolVal(True))
            return V('map', (arr, dom), kk=kk, vk=vk, size=z3.simplify(size))
        except OutOfReach:
            return V('opaque')          # no information; any use that needs its content is out of reach

    def join_desc(self, ds):
        d = ds[0]
        for o in ds[1:]:
            if o.kind == d.kind: continue
            if {o.kind, d.kind} <= {'int', 'real', 'num'}: d = DR if 'real' in (o.kind, d.kind) else DN
            else: raise OutOfReach(f'heterogeneous list {d.kind}/{o.kind}')
        return d

    def e_JoinedStr(self, e, st):
        vals = [v if isinstance(v, ast.Constant) else self.ev(v.value, st) for v in e.values]
        hk = self.c.get('fstring_text')
        if hk is not None:      # the contract says which printed expressions are symbolic texts (and of which class)
            vals = [x if isinstance(x, ast.Constant) else (hk(self, st, x, ast.unparse(v.value)) or x) for v, x in zip(e.values, vals)]
        if any(not isinstance(x, ast.Constant) and x.kind == 'text' for x in vals):
            # a symbolic TEXT (pyvc/template.py): literal pieces of the real source and printed expressions
            parts = []
            for x in vals:
                if isinstance(x, ast.Constant): parts.append(('lit', str(x.value)))
                elif x.kind == 'text': parts += list(x.t)
                elif x.kind == 'str' and z3.is_string_value(x.t): parts.append(('lit', x.t.as_string()))
                elif x.kind == 'int' and z3.is_int_value(z3.simplify(x.t)): parts.append(('lit', str(z3.simplify(x.t).as_long())))
                else: raise OutOfReach(f'f-string mixes a symbolic text with an unknown {x.kind} (line {e.lineno})')
            return V('text', parts)
        parts = []
        for v, x in zip(e.values, vals):
            if isinstance(v, ast.Constant): parts.append(z3.StringVal(v.value))
            else:
                if x.kind == 'str': parts.append(x.t)
                elif x.kind == 'int': parts.append(z3.IntToStr(x.t))
                else: parts.append(self.fresh(S, 'fmt'))
        if not parts: return VS('')
        return V('str', parts[0] if len(parts) == 1 else z3.Concat(*parts))

    def e_ListComp(self, e, st):
        if len(e.generators) != 1 or e.generators[0].is_async: return V('opaque')      # nested comprehension: no information
        g = e.generators[0]
        src = self.ev(g.iter, st)
        if src.kind == 'comp' and src.x['conds'] and isinstance(g.target, ast.Name) and not g.is_async:
            # a comprehension over a FILTERED comprehension: fuse the two  [h(n) for n in [f(b) for b in S if c(b)] if d(n)]  =
            # [h(f(b)) for b in S if c(b) and d(f(b))]  (the inner list cannot be named element-wise)
            import copy
            inner = src; name = g.target.id

            class _Sub(ast.NodeTransformer):
                def visit_Name(self_, node):
                    return copy.deepcopy(inner.x['elt']) if node.id == name else node
            sub = lambda node: ast.fix_missing_locations(_Sub().visit(copy.deepcopy(node)))
            return V('comp', None, src=inner.x['src'], target=inner.x['target'], elt=sub(e.elt), conds=list(inner.x['conds']) + [sub(c) for c in g.ifs],
                     st=inner.x['st'], settype=False)
        if src.kind == 'comp' and not self.dry: src = self.materialise(st, src)        # a comprehension over a comprehension: name the inner list
        return V('comp', None, src=src, target=g.target, elt=e.elt, conds=g.ifs, st=st, settype=False)

    def e_SetComp(self, e, st):
        v = self.e_ListComp(e, st); v.x['settype'] = True
        return v

    def e_GeneratorExp(self, e, st): return self.e_ListComp(e, st)

    def e_Lambda(self, e, st): return V('fn', e, st=st)

    def e_DictComp(self, e, st):
        """{k: v for k, v in M.items() if cond(k)}  -> the map M restricted to the keys satisfying cond; anything else: no information"""
        try:
            if len(e.generators) != 1: return V('opaque')
            g = e.generators[0]
            src = self.ev(g.iter, st)
            tgt = g.target
            if not (src.kind == 'mapiter' and src.x['what'] == 'items' and isinstance(tgt, ast.Tuple) and len(tgt.elts) == 2
                    and all(isinstance(t, ast.Name) for t in tgt.elts) and isinstance(e.key, ast.Name) and isinstance(e.value, ast.Name)
                    and e.key.id == tgt.elts[0].id and e.value.id == tgt.elts[1].id):
                # another shape: handed to the contract as it is (a callee handler may interpret it); any other use of its content is out of reach
                return V('dictcomp', None, node=e, src=src, st=st)
            m = src.x['m']
            if m.get('empty'): return m
            arr, dom = m.t
            k = self.fresh(m.x['kk'].sort(), 'dk')
            cst = st.fork()
            cst.vars[tgt.elts[0].id] = m.x['kk'].wrap(k); cst.vars[tgt.elts[1].id] = m.x['vk'].wrap(z3.Select(arr, k))
            save = self.dry; self.dry += 1
            try: cond = z3.And(*[truthy(self.ev(c, cst)) for c in g.ifs]) if g.ifs else z3.BoolVal(True)
            finally: self.dry = save
            ndom = z3.Lambda([k], z3.And(z3.Select(dom, k), cond))
            return V('map', (arr, ndom), kk=m.x['kk'], vk=m.x['vk'], size=None)
        except OutOfReach:
            return V('opaque')

    # ---- calls
    def e_Call(self, e, st):
        fn = e.func
        args = None
        if isinstance(fn, ast.Attribute):
            name = fn.attr
            h = self.c.get('calls', {}).get(name)
            recv = self.ev(fn.value, st)
            args = [self.ev(a.value if isinstance(a, ast.Starred) else a, st) for a in e.args]
            kwargs = {k.arg: self.ev(k.value, st) for k in e.keywords}
            if h is not None:
                self.trusted.add(name)
                r = h(self, st, recv, args, kwargs)
                if r is not NotImplemented: return r
            return self.method(st, recv, name, args, kwargs, e)
        if isinstance(fn, ast.Name):
            name = fn.id
            h = self.c.get('calls', {}).get(name)
            if h is not None:
                args = [self.ev(a.value if isinstance(a, ast.Starred) else a, st) for a in e.args]
                kwargs = {k.arg: self.ev(k.value, st) for k in e.keywords}
                self.trusted.add(name)
                r = h(self, st, None, args, kwargs)
                if r is not NotImplemented: return r
            return self.builtin(st, name, e, args)
        raise OutOfReach(f'call of {ast.unparse(fn)} (line {e.lineno})')

    def builtin(self, st, name, e, args=None):
        if name == 'isinstance':
            o = self.ev(e.args[0], st)
            cls = ast.unparse(e.args[1])
            h = self.c.get('isinstance')
            if h is None: raise OutOfReach(f'isinstance without a contract model (line {e.lineno})')
            return VB(h(self, st, o, cls))
        if args is None: args = [self.ev(a, st) for a in e.args]
        if name == 'len':
            o = args[0]
            if o.kind in ('seq', 'set'):
                if o.get('empty'): return VI(0)
                return VI(z3.Length(o.t))
            if o.kind == 'tuple': return VI(len(o.t))
            if o.kind == 'str': return VI(z3.Length(o.t))
            if o.kind == 'comp' and not o.x['conds']: return self.builtin_len_src(o.x['src'])
            if o.kind == 'comp':
                m = self.materialise(st, o)
                if m.kind in ('seq', 'set'): return VI(z3.Length(m.t))
            if o.kind == 'map' and o.get('size') is not None: return VI(o.get('size'))
            if o.kind == 'mapiter' and o.x['m'].get('size') is not None: return VI(o.x['m'].get('size'))
            raise OutOfReach(f'len of {o.kind}')
        if name == 'range':
            ts = [toint(a) for a in args]
            if len(ts) == 1: lo, hi = z3.IntVal(0), ts[0]
            elif len(ts) == 2: lo, hi = ts
            else: raise OutOfReach('range with step')
            return V('range', None, lo=lo, hi=hi, rev=False)
        if name == 'reversed':
            o = args[0]
            if o.kind == 'range': return V('range', None, lo=o.x['lo'], hi=o.x['hi'], rev=not o.x['rev'])
            if o.kind == 'seq': return V('seq', o.t, **{**o.x, 'rev': not o.get('rev', False)})
            raise OutOfReach('reversed')
        if name == 'enumerate': return V('enum', None, src=args[0])
        if name == 'zip': return V('zip', None, srcs=args)
        if name in ('int',):
            a = args[0]
            if a.kind in ('int', 'bool'): return VI(toint(a))
            if a.kind in ('real', 'num'):
                if a.get('integral'): return VI(z3.ToInt(a.t))
                h = self.c.get('int_of_real')
                if h: return h(self, st, a)
                # int(x) of a real that the contract declares integral-valued
                raise OutOfReach(f'int() of a real without integrality (line {e.lineno})')
            raise OutOfReach('int()')
        if name == 'float':
            a = args[0]
            if a.kind in ('num', 'int', 'bool'): return VN(toreal(a))       # a Python float is a numeric literal value (A-float)
            return VR(toreal(a))
        if name == 'bool': return VB(truthy(args[0]))
        if name == 'str':
            a = args[0]
            if a.kind == 'str': return a
            if a.kind == 'int': return V('str', z3.IntToStr(a.t))
            return V('str', self.fresh(S, 'str'))
        if name == 'abs':
            a = args[0]
            if a.kind == 'int': return VI(z3.If(a.t >= 0, a.t, -a.t))
            x = toreal(a); return VR(z3.If(x >= 0, x, -x))
        if name in ('min', 'max') and len(args) >= 2:
            r = args[0]
            for a in args[1:]:
                if r.kind == 'int' and a.kind == 'int':
                    c = (a.t < r.t) if name == 'min' else (a.t > r.t)
                    r = VI(z3.If(c, a.t, r.t))
                else:
                    x, y = toreal(r), toreal(a)
                    c = (y < x) if name == 'min' else (y > x)
                    r = VR(z3.If(c, y, x))
            return r
        if name in ('any', 'all') and len(args) == 1 and args[0].kind == 'comp' and args[0].x['src'].kind in ('seq', 'set'):
            comp = args[0]; src = comp.x['src']
            j = self.fresh(I, 'qj')
            cst = comp.x['st'].fork(); cst.heap = st.heap
            for k_, v_ in st.vars.items(): cst.vars.setdefault(k_, v_)
            self.store(comp.x['target'], src.x['ek'].wrap(src.t[j]), cst)
            save = self.dry; self.dry += 1
            try:
                filt = [truthy(self.ev(c, cst)) for c in comp.x['conds']]
                val = truthy(self.ev(comp.x['elt'], cst))
            finally:
                self.dry = save
            rng = z3.And(0 <= j, j < z3.Length(src.t), *filt)
            return VB(z3.Exists([j], z3.And(rng, val)) if name == 'any' else z3.ForAll([j], z3.Implies(rng, val)))
        if name in ('any', 'all') and len(args) == 1 and args[0].kind == 'seq' and args[0].x['ek'].kind == 'bool':
            j = self.fresh(I, 'qj'); sq = args[0].t
            rng = z3.And(0 <= j, j < z3.Length(sq))
            return VB(z3.Exists([j], z3.And(rng, sq[j])) if name == 'any' else z3.ForAll([j], z3.Implies(rng, sq[j])))
        if name == 'sum' and len(args) == 1 and args[0].kind == 'comp' and not args[0].x['conds']: args = [self.materialise(st, args[0])]
        if name == 'sum' and len(args) == 1 and args[0].kind == 'seq' and args[0].x['ek'].kind in ('real', 'num'):
            return V(args[0].x['ek'].kind, SUMSEQ(args[0].t))       # a sum of numeric values is a numeric value
        if name in IDENTITY_FUNCS:
            a = args[0]
            if a.kind == 'int' and name in ('sympify', 'ssympify'): return V('num', z3.ToReal(a.t), integral=True)
            return a
        if name in ('list', 'tuple'):
            if not args: return V('seq', None, ek=None, empty=True)
            a = args[0]
            if a.kind == 'opaque': return a
            if a.kind == 'range':
                lo, hi = a.x['lo'], a.x['hi']
                n = z3.If(hi - lo < 0, 0, hi - lo)
                r = self.fresh(z3.SeqSort(I), 'rangelist'); j = self.fresh(I, 'rj')
                self.axioms += [z3.Length(r) == n, z3.ForAll([j], z3.Implies(z3.And(0 <= j, j < n), r[j] == lo + j))]
                return V('seq', r, ek=DI)
            if a.kind == 'comp': return self.materialise(st, a)
            if a.kind == 'seq' and a.get('rev'):         # list(reversed(s))
                r = self.fresh(a.t.sort(), 'reversed'); j = self.fresh(I, 'rj'); n = z3.Length(a.t)
                self.axioms += [z3.Length(r) == n, z3.ForAll([j], z3.Implies(z3.And(0 <= j, j < n), r[j] == a.t[n - 1 - j]))]
                return V('seq', r, **{k: v for k, v in a.x.items() if k != 'rev'})
            if a.kind in ('seq',): return a
            if a.kind == 'set': return V('seq', a.t, **a.x)
            raise OutOfReach(f'list({a.kind})')
        if name == 'set':
            if not args: return V('set', None, ek=None, empty=True)
            a = args[0]
            if a.kind in ('seq', 'set'): return V('set', a.t, **{k: v for k, v in a.x.items() if k != 'rev'})
            if a.kind == 'comp': a.x['settype'] = True; return a
            raise OutOfReach(f'set({a.kind})')
        if name.endswith('Exception') or name.endswith('Error'):
            return V('exc', name)
        raise OutOfReach(f'call of {name} without contract (line {e.lineno})')

    def builtin_len_src(self, src):
        if src.kind in ('seq', 'set'): return VI(z3.Length(src.t))
        if src.kind == 'range':
            n = src.x['hi'] - src.x['lo']; return VI(z3.If(n < 0, 0, n))
        raise OutOfReach('len of comprehension source')

    def method(self, st, recv, name, args, kwargs, e):
        if recv.kind in ('real', 'num', 'int') and name in IDENTITY_METHODS:
            return recv
        if recv.kind == 'opaque': return V('opaque')
        if recv.kind == 'set' and name == 'pop' and not args and isinstance(e.func.value, ast.Name):
            # arbitrary element; the name is rebound to the remaining set (elements distinct: sets)
            ek = recv.x['ek']
            el = self.fresh(ek.sort(), 'popped'); rest = self.fresh(recv.t.sort(), 'rest'); y = self.fresh(ek.sort(), 'y')
            self.need(st, z3.Length(recv.t) > 0, f'pop-from-nonempty@{e.lineno}', 'safety', e.lineno)
            # facts about the popped element constrain the receiver on THIS path only: path condition, not global axioms
            st.pc += [member(recv.t, el), z3.Length(rest) == z3.Length(recv.t) - 1,
                      z3.ForAll([y], member(rest, y) == z3.And(member(recv.t, y), y != el), patterns=[member(rest, y)])]
            st.vars[e.func.value.id] = V('set', rest, **recv.x)
            return ek.wrap(el)
        if recv.kind == 'map':
            if name == 'get':
                arr, dom = recv.t
                k = unwrap(args[0], recv.x['kk'])
                dflt = args[1] if len(args) > 1 else VNone()
                present = z3.Select(dom, k)
                val = recv.x['vk'].wrap(z3.Select(arr, k))
                return self.ite(present, val, dflt)
            if name in ('items', 'keys', 'values'):
                return V('mapiter', None, m=recv, what=name)
            if name == 'copy': return recv
        if recv.kind == 'cls':
            key = f'{recv.t}.{name}'
            h = self.c.get('calls', {}).get(key)
            if h is not None:
                self.trusted.add(key)
                return h(self, st, None, args, kwargs)
        raise OutOfReach(f'method {name} on {recv.kind} (line {e.lineno})')

    # ---- statements --------------------------------------------------------------------------
    def block(self, stmts, st):
        states = [st]
        for stmt in stmts:
            nxt = []
            m = getattr(self, 's_' + type(stmt).__name__, None)
            if m is None: raise OutOfReach(f'statement {type(stmt).__name__} at line {stmt.lineno}')
            for x in states:
                if '$continue' in x.vars or '$break' in x.vars: nxt.append(x)       # control already left this block
                else: nxt += m(stmt, x)
            states = nxt
        return states

    def s_FunctionDef(self, n, st):
        # a nested helper: its body is not executed here; calls to it need a callee contract (cx.call(<name>, ...)) like any other call
        st = st.fork(); st.vars[n.name] = V('cls', n.name); return [st]

    def s_Pass(self, n, st): return [st]
    def s_Global(self, n, st): return [st]
    def s_Nonlocal(self, n, st): return [st]

    def s_Expr(self, n, st):
        if isinstance(n.value, ast.Constant): return [st]
        if isinstance(n.value, ast.Call):
            f = n.value.func
            if isinstance(f, ast.Name) and f.id in NOOP_STMT_CALLS: return [st]
            if isinstance(f, ast.Attribute):
                return self.mutating_call(n.value, st)
            self.ev(n.value, st)
            return [st]
        raise OutOfReach(f'expression statement at line {n.lineno}')

    def mutating_call(self, call, st):
        f = call.func
        name = f.attr
        h = self.c.get('calls', {}).get(name)
        if h is not None:
            st = st.fork()
            recv = self.ev(f.value, st)
            args = [self.ev(a, st) for a in call.args]
            kwargs = {k.arg: self.ev(k.value, st) for k in call.keywords}
            self.trusted.add(name)
            r = h(self, st, recv, args, kwargs)
            if r is not NotImplemented: return [st]
        recv = self.ev(f.value, st)
        args = [self.ev(a, st) for a in call.args]
        if recv.kind == 'opaque': return [st]
        if recv.kind in ('seq', 'set') and name in ('append', 'add'):
            new = self.seq_append(st, recv, args[0])
            return [self.store(f.value, new, st.fork())]
        if recv.kind == 'set' and name == 'discard':
            raise OutOfReach('set.discard')
        raise OutOfReach(f'statement call .{name} on {recv.kind} (line {call.lineno})')

    def seq_append(self, st, recv, item):
        if recv.get('empty'):
            ek = desc_of(item)
            return V(recv.kind, z3.Unit(unwrap(item, ek)), ek=ek)
        ek = recv.x['ek']
        if ek.kind in ('num', 'int') and item.kind == 'real':
            raise OutOfReach('append widens element kind')
        if recv.kind == 'set':
            # set.add: a fresh set characterised through membership only (robust for quantified invariants)
            x = unwrap(item, ek)
            t = self.fresh(recv.t.sort(), 'setadd'); y = self.fresh(ek.sort(), 'y')
            self.axioms += [z3.ForAll([y], member(t, y) == z3.Or(member(recv.t, y), y == x), patterns=[member(t, y)]),
                            z3.Length(t) > 0, z3.Length(t) >= z3.Length(recv.t), z3.Length(t) <= z3.Length(recv.t) + 1]
        else:
            t = z3.Concat(recv.t, z3.Unit(unwrap(item, ek)))
            # frame facts of append (true of sequences; stated explicitly because E-matching does not see through the sequence theory)
            j = z3.Int(f'ja!{next(self.fresh_n)}')
            self.axioms += [z3.Length(t) == z3.Length(recv.t) + 1, t[z3.Length(recv.t)] == unwrap(item, ek),
                            z3.ForAll([j], z3.Implies(z3.And(0 <= j, j < z3.Length(recv.t)), t[j] == recv.t[j]))]
        return V(recv.kind, t, **recv.x)

    def store(self, target, v, st):
        """assign v to an ast target in (already forked) state st."""
        if isinstance(target, ast.Name):
            st.vars[target.id] = v
            return st
        if isinstance(target, (ast.Tuple, ast.List)):
            if v.kind != 'tuple' or len(v.t) != len(target.elts): raise OutOfReach('unpacking')
            for t, x in zip(target.elts, v.t): self.store(t, x, st)
            return st
        if isinstance(target, ast.Attribute):
            if v.kind == 'comp': v = self.materialise(st, v)
            o = self.ev(target.value, st)
            if o.kind == 'cls':                      # attribute of a module / class object: process-global state, kept as a state variable
                st.vars[f'{o.t}.{target.attr}'] = v
                return st
            if o.kind == 'ref' and self.c.get('ref_store'):
                # store into a field of a symbolic object: the contract decides what must hold of the stored value (obligations), no frame is kept
                self.c['ref_store'](self, st, o, target.attr, v)
                return st
            if o.kind != 'obj': raise OutOfReach(f'attribute store on {o.kind} (line {target.lineno})')
            st.setfield(o, target.attr, v)
            return st
        if isinstance(target, ast.Subscript):
            o = self.ev(target.value, st)
            k = self.ev(target.slice, st)
            hk = self.c.get('subscript_store_hook')
            if hk is not None and hk(self, st, o, k, v): return st
            if o.kind == 'map':
                if o.get('empty'):
                    kk, vk = desc_of(k), desc_of(v)
                    arr = z3.K(kk.sort(), self.default_of(vk))
                    dom = z3.K(kk.sort(), z3.BoolVal(False))
                    o = V('map', (arr, dom), kk=kk, vk=vk, size=z3.IntVal(0))
                arr, dom = o.t
                kt = unwrap(k, o.x['kk'])
                size = o.get('size')
                if size is not None: size = z3.If(z3.Select(dom, kt), size, size + 1)
                vk = o.x['vk']
                if vk.kind == 'num' and v.kind == 'real':
                    vk = DR; o = V('map', o.t, **{**o.x, 'vk': DR})        # numeric literal values and expression values share the sort Real
                if vk.kind == 'int' and v.kind == 'real': raise OutOfReach('map value kind widens')
                new = V('map', (z3.Store(arr, kt, unwrap(v, vk)), z3.Store(dom, kt, z3.BoolVal(True))),
                        **{**o.x, 'size': size})
                return self.store(target.value, new, st)
            raise OutOfReach(f'subscript store on {o.kind}')
        raise OutOfReach('assignment target')

    def default_of(self, d):
        s = d.sort()
        if s == I: return z3.IntVal(0)
        if s == R: return z3.RealVal(0)
        if s == B: return z3.BoolVal(False)
        return self.fresh(s, 'dflt')

    def s_Assign(self, n, st):
        st = st.fork()
        v = self.ev(n.value, st)
        if v.get('empty') and len(n.targets) == 1:
            d = (self.c.get('empty_kinds') or {}).get(ast.unparse(n.targets[0]))     # sort of an initially empty container, from the contract
            if isinstance(d, V): v = d
            elif d is not None: v = V(d.kind, z3.Empty(d.sort()), ek=d.x['elem'])
        if v.kind == 'comp' and len(n.targets) == 1 and ast.unparse(n.targets[0]) in (self.c.get('materialise') or ()):
            v = self.materialise(st, v)              # the contract talks about this list: name it
        for t in n.targets: self.store(t, v, st)
        hk = self.c.get('assign_hook')
        if hk is not None and not self.dry: hk(self, st, n, v)          # the contract may state what a particular local must hold at this point
        return [st]

    def s_AnnAssign(self, n, st):
        if n.value is None: return [st]
        return self.s_Assign(ast.Assign(targets=[n.target], value=n.value, lineno=n.lineno), st)

    def s_AugAssign(self, n, st):
        cur = self.ev(n.target, st)
        rhs = self.ev(n.value, st)
        v = self.arith(st, type(n.op).__name__, cur, rhs, n.lineno)
        st = st.fork(); self.store(n.target, v, st); return [st]

    def s_If(self, n, st):
        st = st.fork()
        c = truthy(self.ev(n.test, st))          # kept unsimplified in path conditions (z3.simplify rewrites seq.nth into forms that no longer match specs)
        out = []
        for cond, stmts in ((c, n.body), (z3.Not(c), n.orelse)):
            if z3.is_false(z3.simplify(cond)): continue
            br = st.fork(cond)
            try:
                out += self.block(stmts, br)
            except OutOfReach:
                # a branch outside the subset only matters if it is reachable under the contract's precondition
                if self.feasible(br): raise
        return out

    def feasible(self, st):
        s = z3.Solver(); s.set('timeout', 5000)
        for a in self.axioms:
            if not z3.is_quantifier(a): s.add(a)
        for p in st.pc:
            if not z3.is_quantifier(p): s.add(p)
        return s.check() != z3.unsat

    def s_Return(self, n, st):
        st = st.fork()
        v = self.ev(n.value, st) if n.value else VNone()
        if v.kind == 'comp': v = self.materialise(st, v)
        if not self.dry: self.returns.append((st, v, n.lineno))
        return []

    def s_Try(self, n, st):
        """try: <one statement> except ...: <handler>.  The body path is followed as usual (its callees are assumed not to raise unless their
        contract says so: A-exc); every handler is ALSO followed from the state at the entry of the try statement (the single body statement had no
        effect when it raised).  Bodies of several statements, else and finally parts are out of reach."""
        if len(n.body) != 1 or n.orelse or n.finalbody: raise OutOfReach(f'try statement of this shape (line {n.lineno})')
        outs = self.block(n.body, st.fork())
        for h in n.handlers:
            hs = st.fork()
            if h.name: hs.vars[h.name] = V('exc', 'caught')
            outs += self.block(h.body, hs)
        return outs

    def s_Raise(self, n, st):
        x = self.ev(n.exc, st) if n.exc else V('exc', 'reraise')
        if not self.dry: self.raises.append((st, x, n.lineno))
        return []

    def s_Assert(self, n, st):
        c = truthy(self.ev(n.test, st))
        self.need(st, c, f'assert@{n.lineno}', 'assert', n.lineno)
        return [st.fork(c)]

    def s_Continue(self, n, st):
        st = st.fork(); st.vars['$continue'] = VB(True); return [st]

    def s_Break(self, n, st):
        st = st.fork(); st.vars['$break'] = VB(True); return [st]

    # ---- comprehension materialisation (only for unconditional maps over a sequence)
    def materialise(self, st, comp):
        """A comprehension used as a value (not fused into a loop): the result is a fresh sequence
        characterised element-wise; only filter-free comprehensions over seq/range are supported."""
        src = comp.x['src']
        h = self.c.get('comprehension')
        if h is not None:
            r = h(self, st, comp)
            if r is not None: return r
        if comp.x['conds']:
            tgt, elt = comp.x['target'], comp.x['elt']
            if not (isinstance(tgt, ast.Name) and isinstance(elt, ast.Name) and elt.id == tgt.id and src.kind in ('seq', 'set')):
                raise OutOfReach('filtered comprehension used as a value')
            # {v for v in S if p(v)}: fresh container r with  x in r  <=>  x in S and p(x)  (and r is a sub-multiset of S)
            ek = src.x['ek']
            x = self.fresh(ek.sort(), 'cx')
            cst = comp.x['st'].fork()
            cst.vars[tgt.id] = ek.wrap(x)
            save = self.dry; self.dry += 1
            try: p = z3.And(*[truthy(self.ev(cnd, cst)) for cnd in comp.x['conds']])
            finally: self.dry = save
            r = self.fresh(src.t.sort(), 'filt')
            self.axioms.append(z3.ForAll([x], member(r, x) == z3.And(member(src.t, x), p)))
            self.axioms.append(z3.Length(r) <= z3.Length(src.t))
            return V('set' if comp.x['settype'] else 'seq', r, ek=ek)
        if src.kind == 'seq':
            n = z3.Length(src.t)
            j = self.fresh(I, 'cj')
            cst = comp.x['st'].fork(0 <= j, j < n)
            self.store(comp.x['target'], src.x['ek'].wrap(src.t[n - 1 - j] if src.get('rev') else src.t[j]), cst)      # reversed(seq): element j is seq[n-1-j]
            save = self.dry; self.dry += 1
            try: el = self.ev(comp.x['elt'], cst)
            finally: self.dry = save
            ek = desc_of(el)
            r = self.fresh(z3.SeqSort(ek.sort()), 'comp')
            self.axioms.append(z3.Length(r) == n)
            self.axioms.append(z3.ForAll([j], z3.Implies(z3.And(0 <= j, j < n), r[j] == unwrap(el, ek))))
            return V('set' if comp.x['settype'] else 'seq', r, ek=ek)
        if src.kind == 'range' and not comp.x['conds']:
            lo, hi = src.x['lo'], src.x['hi']
            n = z3.If(hi - lo < 0, 0, hi - lo)
            j = self.fresh(I, 'cj')
            cst = comp.x['st'].fork(0 <= j, j < n)
            self.store(comp.x['target'], VI(hi - 1 - j if src.x.get('rev') else lo + j), cst)
            save = self.dry; self.dry += 1
            try: el = self.ev(comp.x['elt'], cst)
            finally: self.dry = save
            ek = desc_of(el)
            r = self.fresh(z3.SeqSort(ek.sort()), 'comp')
            self.axioms.append(z3.Length(r) == n)
            self.axioms.append(z3.ForAll([j], z3.Implies(z3.And(0 <= j, j < n), r[j] == unwrap(el, ek))))
            return V('set' if comp.x['settype'] else 'seq', r, ek=ek)
        raise OutOfReach(f'comprehension over {src.kind} used as a value')

    # ---- loops
    def assigned_names(self, body):
        names, attrs = set(), set()
        for x in ast.walk(ast.Module(body=body, type_ignores=[])):
            tgts = []
            if isinstance(x, ast.Assign): tgts = x.targets
            elif isinstance(x, (ast.AugAssign, ast.AnnAssign)): tgts = [x.target]
            elif isinstance(x, ast.For): tgts = [x.target]
            elif isinstance(x, ast.Expr) and isinstance(x.value, ast.Call) and isinstance(x.value.func, ast.Attribute):
                base = x.value.func.value
                if x.value.func.attr in ('append', 'add', 'pop', 'discard', 'remove', 'update', 'extend', 'insert', 'clear'):
                    tgts = [base]
            elif isinstance(x, ast.Call) and isinstance(x.func, ast.Attribute) and x.func.attr in ('pop', 'popitem'):
                tgts = [x.func.value]
            for t in tgts:
                for y in ast.walk(t):
                    if isinstance(y, ast.Name) and isinstance(getattr(y, 'ctx', None), (ast.Store, ast.Load)):
                        if isinstance(t, ast.Name) or isinstance(t, (ast.Tuple, ast.List)):
                            names.add(y.id)
                if isinstance(t, ast.Subscript) and isinstance(t.value, ast.Name): names.add(t.value.id)
                if isinstance(t, ast.Attribute): attrs.add((ast.unparse(t.value), t.attr))
                if isinstance(t, ast.Subscript) and isinstance(t.value, ast.Attribute):
                    attrs.add((ast.unparse(t.value.value), t.value.attr))
        return names, attrs

    def havoc(self, st, names, attrs, kinds):
        h = st.fork()
        self._cur_state = h
        names = set(names) | {g for g in (self.c.get('loop_ghosts') or []) if g in st.vars}
        for m in sorted(names):
            if m in st.vars:
                v = st.vars[m]
                if kinds.get(m) == 'real' and v.kind in ('int', 'num'): v = VR(toreal(v))
                if v.get('empty'): raise OutOfReach(f'loop-carried empty container {m}: element sort unknown')
                h.vars[m] = self.fresh_like(v, m)
        for base, attr in sorted(attrs):
            try:
                o = self.ev(ast.parse(base, mode='eval').body, st)
            except OutOfReach:
                if self.c.get('ref_store'): continue        # base is a loop-local symbolic object: stores are handled by the contract hook, no frame kept
                raise
            if o.kind != 'obj':
                if self.c.get('ref_store'): continue
                raise OutOfReach('loop writes a field of a symbolic object')
            cur = st.heap[o.t][attr]
            key = f'{base}.{attr}'
            if kinds.get(key) == 'real' and cur.kind in ('int', 'num'): cur = VR(toreal(cur))
            h.setfield(o, attr, self.fresh_like(cur, attr))
        return h

    def learn_kinds(self, body_runner, st, names, attrs):
        """Execute the body once on a throw-away state to learn the join of sorts of loop-carried variables."""
        kinds = {}
        for _ in range(3):
            h = self.havoc(st, names, attrs, kinds)
            self.dry += 1
            save = (len(self.axioms), set(self.pow_seen))
            try:
                outs = body_runner(h)
            finally:
                self.dry -= 1
            changed = False
            for out in outs:
                for m in names:
                    if m in out.vars and m in st.vars:
                        a, b = st.vars[m].kind, out.vars[m].kind
                        if b == 'real' and a in ('int', 'num') and kinds.get(m) != 'real':
                            kinds[m] = 'real'; changed = True
                for base, attr in attrs:
                    try: o = self.ev(ast.parse(base, mode='eval').body, st)
                    except OutOfReach: continue
                    if o.kind != 'obj': continue
                    a, b = st.heap[o.t][attr].kind, out.heap[o.t][attr].kind
                    if b == 'real' and a in ('int', 'num') and kinds.get(f'{base}.{attr}') != 'real':
                        kinds[f'{base}.{attr}'] = 'real'; changed = True
            if not changed: break
        return kinds

    def inv(self, k, st, assume=False):
        """loop invariant k at state st. A contract may return {'prove': F, 'assume': L}: L is a lemma instance (an assumed
        mathematical fact about the loop's ghost functions, listed in the evidence); it is only added where the invariant is ASSUMED."""
        invs = self.c.get('invariants', {})
        if k not in invs:
            # a loop the contract does not know (new in the source): cut with the invariant 'true' -- everything the loop assigns is unknown
            # afterwards; sound, and whatever the function's postcondition needs from the loop will simply fail to be proved
            self.loops_without_invariant.add(k)
            return z3.BoolVal(True)
        try:
            r = invs[k](st)
        except KeyError as ex_:
            # the invariant names a local variable that the current source no longer has (e.g. after a renaming): the contract does not fit the
            # source any more -- no verdict from this tier (the bounded twin decides), never an alarm for a mere renaming
            raise OutOfReach(f'invariant of loop {k} refers to the local {ex_} which the source no longer has')
        lem = None
        if isinstance(r, dict): r, lem = r['prove'], r.get('assume')
        if isinstance(r, (list, tuple)): r = z3.And(*r) if r else z3.BoolVal(True)
        if assume and lem is not None: r = z3.And(r, lem)
        return r

    def run_body(self, n, hb, k, after):
        """run loop body; returns list of (state, kind) with kind in normal/break."""
        outs = []
        for out in self.block(n.body, hb):
            outs.append(out)
        return outs

    def s_For(self, n, st):
        k = self.loop_ord[id(n)]
        if n.orelse: raise OutOfReach('for-else')
        it = self.ev(n.iter, st)
        names, attrs = self.assigned_names(n.body)
        for y in ast.walk(n.target):
            if isinstance(y, ast.Name): names.discard(y.id)
        gi = f'$i{k}'                     # ghost index over the source
        # describe the source: length L and element(i)
        elem_guard = None
        if it.kind == 'range':
            lo, hi, rev = it.x['lo'], it.x['hi'], it.x['rev']
            L = z3.If(hi - lo < 0, 0, hi - lo)
            elem = (lambda i: VI(hi - 1 - i)) if rev else (lambda i: VI(lo + i))
        elif it.kind in ('seq', 'set'):
            if it.get('empty'):
                return [st]
            L = z3.Length(it.t)
            rev = it.get('rev', False)
            elem = (lambda i: it.x['ek'].wrap(it.t[L - 1 - i])) if rev else (lambda i: it.x['ek'].wrap(it.t[i]))
        elif it.kind == 'tuple' and it.t:
            items = list(it.t); L = z3.IntVal(len(items))        # a Python tuple of values of one kind: element i by case distinction

            def elem(i, items=items):
                v = items[-1]
                for idx in range(len(items) - 2, -1, -1): v = self.ite(i == idx, items[idx], v)
                return v
        elif it.kind == 'enum':
            src = it.x['src']
            if src.kind != 'seq': raise OutOfReach('enumerate over non-seq')
            L = z3.Length(src.t)
            elem = lambda i: V('tuple', (VI(i), src.x['ek'].wrap(src.t[i])))
        elif it.kind == 'zip':
            srcs = it.x['srcs']
            if any(s_.kind not in ('seq', 'set') for s_ in srcs): raise OutOfReach('zip over non-seq')
            L = z3.Length(srcs[0].t)
            for s_ in srcs[1:]: L = z3.If(z3.Length(s_.t) < L, z3.Length(s_.t), L)
            elem = lambda i: V('tuple', tuple(s_.x['ek'].wrap(s_.t[i]) for s_ in srcs))
        elif it.kind == 'comp':
            comp = it
            src = comp.x['src']
            if src.kind == 'range':
                lo, hi = src.x['lo'], src.x['hi']
                L = z3.If(hi - lo < 0, 0, hi - lo)
                raw = lambda i: VI(lo + i)
            elif src.kind in ('seq', 'set'):
                L = z3.Length(src.t)
                raw = lambda i: src.x['ek'].wrap(src.t[i])
            else: raise OutOfReach(f'loop over comprehension of {src.kind}')

            def comp_env(i, base):
                cst = comp.x['st'].fork()
                cst.pc = list(base.pc)
                # the comprehension was built in comp.x['st']; loop-carried names shadow it
                for m in names:
                    if m in base.vars: cst.vars[m] = base.vars[m]
                cst.heap = base.heap
                self.store(comp.x['target'], raw(i), cst)
                return cst

            def elem_guard(i, base):
                cst = comp_env(i, base)
                cs = [truthy(self.ev(c, cst)) for c in comp.x['conds']]
                return z3.And(*cs) if cs else z3.BoolVal(True)

            def elem(i, base=None):
                cst = comp_env(i, base)
                return self.ev(comp.x['elt'], cst)
        elif it.kind == 'mapiter':
            m = it.x['m']
            h = self.c.get('map_iteration')
            if h is None: raise OutOfReach('iteration over a dict needs a map_iteration model in the contract')
            L, elem = h(self, st, m, it.x['what'])
        else:
            raise OutOfReach(f'for over {it.kind} (line {n.lineno})')

        # initiation
        st0 = st.fork(); st0.vars[gi] = VI(0)
        self.need(st, self.inv(k, st0), f'loop{k}.init', 'loop-init', n.lineno)

        def body_runner(h):
            i = self.fresh(I, 'gi')
            h.vars[gi] = VI(i)
            h.pc += [0 <= i, i < L]
            h.pc.append(self.inv(k, h, assume=True))
            outs = []
            if it.kind == 'comp':
                g = z3.simplify(elem_guard(i, h))
                if not z3.is_true(g):
                    sk = h.fork(z3.Not(g)); sk.vars[gi] = VI(i + 1)
                    self.need(sk, self.inv(k, sk), f'loop{k}.preserve.skip', 'loop-preserve', n.lineno)
                hb = h.fork(g)
                self.store(n.target, elem(i, hb), hb)
            else:
                hb = h.fork()
                self.store(n.target, elem(i), hb)
            for out in self.block(n.body, hb):
                if '$break' in out.vars:
                    o2 = out.fork(); o2.vars.pop('$break'); breaks.append(o2); continue
                o2 = out.fork(); o2.vars.pop('$continue', None); o2.vars[gi] = VI(i + 1)
                self.need(o2, self.inv(k, o2), f'loop{k}.preserve', 'loop-preserve', n.lineno)
                outs.append(o2)
            return outs

        breaks = []
        kinds = self.learn_kinds(body_runner, st, names, attrs)
        breaks.clear()
        body_runner(self.havoc(st, names, attrs, kinds))
        # exit
        e = self.havoc(st, names, attrs, kinds)
        e.vars[gi] = VI(L)
        e.pc.append(self.inv(k, e, assume=True))
        return [e] + breaks

    def s_While(self, n, st):
        k = self.loop_ord[id(n)]
        if n.orelse: raise OutOfReach('while-else')
        names, attrs = self.assigned_names(n.body)
        self.need(st, self.inv(k, st), f'loop{k}.init', 'loop-init', n.lineno)
        breaks = []

        def body_runner(h):
            h.pc.append(self.inv(k, h, assume=True))
            c = truthy(self.ev(n.test, h))
            hb = h.fork(c)
            dec = self.c.get('decreases', {}).get(k)
            d0 = dec(hb) if dec else None
            outs = []
            for out in self.block(n.body, hb):
                if '$break' in out.vars:
                    o2 = out.fork(); o2.vars.pop('$break'); breaks.append(o2); continue
                o2 = out.fork(); o2.vars.pop('$continue', None)
                self.need(o2, self.inv(k, o2), f'loop{k}.preserve', 'loop-preserve', n.lineno)
                if dec:
                    d1 = dec(o2)
                    self.need(o2, z3.And(d0 >= 0, d1 < d0), f'loop{k}.decreases', 'termination', n.lineno)
                outs.append(o2)
            return outs

        kinds = self.learn_kinds(body_runner, st, names, attrs)
        breaks.clear()
        body_runner(self.havoc(st, names, attrs, kinds))
        e = self.havoc(st, names, attrs, kinds)
        e.pc.append(self.inv(k, e, assume=True))
        c_exit = z3.Not(truthy(self.ev(n.test, e)))
        if z3.is_false(z3.simplify(c_exit)): return breaks          # `while True:` is only left through break
        e.pc.append(c_exit)
        return [e] + breaks


def find_function(tree, qual):
    """'Class.method' ; 'Class.name#k' selects the k-th (0-based) definition of that name (singledispatch registrations all called '_')"""
    node = tree
    for part in qual.split('.'):
        name, _, k = part.partition('#')
        cands = [n for n in ast.iter_child_nodes(node) if isinstance(n, (ast.FunctionDef, ast.ClassDef)) and n.name == name]
        if not cands: return None
        node = cands[int(k)] if k else cands[-1]
        if k and int(k) >= len(cands): return None
    return node
